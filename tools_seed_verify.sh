#!/bin/sh
# usage: tools_seed_verify.sh <worktree dir> : confirms that seed_out/demo_test.py fails with seed_out/patch.diff and passes without
WT="$1"
cd "$WT" || exit 2
git checkout -q -- rsocket
run() { PYTHONPATH="$WT" timeout 600 /venv/bin/python -m pytest -q -p no:cacheprovider --timeout=120 seed_out/demo_test.py > /tmp/prof/demo.log 2>&1; echo $?; }
A=$(run)
git apply seed_out/patch.diff || { echo "patch does not apply"; exit 2; }
B=$(run)
tail -1 /tmp/prof/demo.log
git checkout -q -- rsocket
echo "demo without patch: exit $A ; with patch: exit $B"
[ "$A" = "0" ] && [ "$B" != "0" ] && echo "SEED-DEMO-OK" || echo "SEED-DEMO-BAD"
