"""Regenerate the seeded-changes table of DESIGN.md §9.8 from seeded/*/meta.json."""
import glob, json, os, re
HERE = os.path.dirname(os.path.abspath(__file__))
rows = []
for d in sorted(glob.glob(os.path.join(HERE, 'seeded', '*'))):
    mp = os.path.join(d, 'meta.json')
    if not os.path.exists(mp):
        continue
    m = json.load(open(mp))
    first = 'caught as committed' if m['result'].lower().startswith('caught') else 'missed -> check strengthened -> caught'
    first = m.get('outcome', first)
    rows.append('| %s | %s | %s | %s | `%s` |' % (m['seed'], m['property'], (m.get('summary') or '').replace('|', '/').replace('\n', ' ')[:230],
                                             first, (m.get('detected_as') or '').replace('|', '/')[:150]))
table = ['| Seed | Property | Change (independent sub-agent, given only the property text) | Outcome | Detected as |', '|---|---|---|---|---|'] + rows
p = os.path.join(HERE, 'DESIGN.md')
s = open(p).read()
start = s.index('### 9.8 Seeded changes')
body = '''### 9.8 Seeded changes (validation of the checks)

Each seed was produced by a fresh sub-agent that saw only the text of one property and worked in its own scratch
worktree; I confirmed for each that the patch applies, that its demonstration fails with the patch and passes
without it, and then ran the property's quick check with the patch applied to /repo (and reverted it).  Details,
including what each seed needs in order to manifest and what was changed in a check that missed it, are in
seeded/<id>/meta.json.  %d seeds so far: %d caught by the check as it was committed at the time, %d missed at first;
every miss led to a strengthening of the check (more of the behaviour behind the property), after which the seed
is caught and the unchanged tree still passes.

%s

Own (non-independent) single-edit mutants from the list in §7a, applied with a script and reverted, all caught by the
quick checks: C02 (length prefix from prefix_length; 59-bit position mask), C03 (no -3 for later fragments), C04
(off-by-one in the completeness test), C06 (async_range(n+1)), C07 (stream requester not finishing on
complete-only), C08 (initial request-n 0 accepted), C09 (responder ignores CANCEL), C10 (finish_stream without
cache removal - missed at first, see 9.6), C13 (modulo instead of mask; attempt bound; missing availability check), C14
(lease counter off by one), C15 (>= in the time-out test), C16 (wrong error code), C18 (tag limit 256; MIME limit;
6-bit id mask), header lemma (2-bit flag mask reduced to 1 bit).
''' % (len(rows), len([r for r in rows if 'caught as committed' in r]), len([r for r in rows if '| missed' in r or '| MISSED' in r]), '\n'.join(table))
s = s[:start] + body
open(p, 'w').write(s)
print(len(rows), 'rows')
