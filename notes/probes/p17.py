from simlib import *
from rsocket.streams.stream_from_generator import StreamFromGenerator
from rsocket.streams.stream_from_async_generator import StreamFromAsyncGenerator

def mk_handler(m, async_gen, complete_on_last):
    class H(BaseRequestHandler):
        async def request_stream(self, payload):
            if async_gen:
                async def gen():
                    for i in range(m):
                        yield Payload(bytes([65 + i])), (complete_on_last and i == m - 1)
                return StreamFromAsyncGenerator(gen)
            def gen():
                for i in range(m):
                    yield Payload(bytes([65 + i])), (complete_on_last and i == m - 1)
            return StreamFromGenerator(gen)
    return H

def nexts(t):
    return [f for _, f in t.sent if isinstance(f, PayloadFrame) and f.flags_next]

def credit(m: int, n0: int, n1: int, n2: int, early: bool, async_gen: bool, col: bool) -> bool:
    """
    pre: 0 <= m <= 3
    pre: 1 <= n0 <= 0x7fffffff and 1 <= n1 <= 0x7fffffff and 1 <= n2 <= 0x7fffffff
    post: _
    """
    with VLoop() as loop:
        Clock.loop = loop
        t = T(loop)
        s = RSocketServer(t, handler_factory=mk_handler(m, async_gen, col)); loop.run_ready()
        t.q.put_nowait(to_request_stream_frame(1, Payload(b'q'), initial_request_n=n0))
        if early:
            t.q.put_nowait(to_request_n_frame(1, n1))     # REQUEST_N arrives before the feeder tasks ran
        loop.run_ready()
        c = n0 + (n1 if early else 0)
        if len(nexts(t)) != min(m, c): return False
        if not early:
            t.q.put_nowait(to_request_n_frame(1, n1)); loop.run_ready()
            c += n1
            if len(nexts(t)) != min(m, c): return False
        t.q.put_nowait(to_request_n_frame(1, n2)); loop.run_ready()
        c += n2
        if len(nexts(t)) != min(m, c): return False
        datas = [bytes(f.data) for f in nexts(t)]
        if datas != [bytes([65 + i]) for i in range(len(datas))]: return False
        comp = [f for _, f in t.sent if isinstance(f, PayloadFrame) and f.flags_complete]
        if c > m or (col and c >= m and m > 0):
            if len(comp) != 1: return False
            if len(s._stream_control._streams) != 0: return False
        t.q.put_nowait(None); loop.run_ready()
        return not loop._exc
