import asyncio, heapq, collections
from asyncio import events

class VLoop(asyncio.AbstractEventLoop):
    """virtual-time loop; time kept in integer microseconds (may be symbolic)"""
    def __init__(self):
        self._ready = collections.deque()
        self._timers = []
        self._now = 0          # microseconds, int
        self._seq = 0
        self._exc = []
    def now_us(self): return self._now
    def time(self): return self._now / 1000000
    def get_debug(self): return False
    def is_running(self): return True
    def is_closed(self): return False
    def create_future(self): return asyncio.Future(loop=self)
    def create_task(self, coro, *, name=None, context=None):
        return asyncio.Task(coro, loop=self, name=name)
    def call_soon(self, cb, *args, context=None):
        h = asyncio.Handle(cb, args, self, context)
        self._ready.append(h)
        return h
    call_soon_threadsafe = call_soon
    def call_later(self, delay, cb, *args, context=None):
        return self._at_us(self._now + round(delay * 1000000), cb, args, context)
    def call_at(self, when, cb, *args, context=None):
        return self._at_us(round(when * 1000000), cb, args, context)
    def _at_us(self, when_us, cb, args, context):
        h = asyncio.TimerHandle(0.0, cb, args, self, context)
        self._seq += 1
        self._timers.append([when_us, self._seq, h])
        return h
    def _timer_handle_cancelled(self, h): pass
    def call_exception_handler(self, ctx): self._exc.append(ctx)
    def default_exception_handler(self, ctx): self._exc.append(ctx)
    def run_iteration(self):
        n = len(self._ready)
        for _ in range(n):
            h = self._ready.popleft()
            if not h._cancelled:
                h._run()
        return n
    def run_ready(self, limit=20000):
        n = 0
        while self._ready:
            h = self._ready.popleft()
            if not h._cancelled:
                h._run()
            n += 1
            if n > limit:
                raise RuntimeError("livelock")
        return n
    def _pop_due(self, target):
        best = None
        for i, (w, s, h) in enumerate(self._timers):
            if h._cancelled: continue
            if w <= target and (best is None or (w, s) < (self._timers[best][0], self._timers[best][1])):
                best = i
        self._timers = [t for t in self._timers if not t[2]._cancelled or t is None]
        return best
    def advance_us(self, dt):
        target = self._now + dt
        while True:
            self.run_ready()
            live = [t for t in self._timers if not t[2]._cancelled]
            due = [t for t in live if t[0] <= target]
            if not due:
                self._timers = live
                break
            first = min(due, key=lambda t: (t[0], t[1]))
            live.remove(first)
            self._timers = live
            if first[0] > self._now:
                self._now = first[0]
            self._ready.append(first[2])
        self._now = target
        self.run_ready()
    def advance(self, seconds): self.advance_us(round(seconds * 1000000))
    def __enter__(self):
        events._set_running_loop(self); asyncio.set_event_loop(self); return self
    def __exit__(self, *a):
        events._set_running_loop(None); asyncio.set_event_loop(None)
