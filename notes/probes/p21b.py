from simlib import *
from rsocket.error_codes import ErrorCode

class H(BaseRequestHandler):
    async def request_response(self, p):
        return create_response(b'ok' + (p.data or b''))

CODES = (0x001, 0x002, 0x003, 0x004, 0x101, 0x102, 0x201, 0x202, 0x203, 0x204, 0xFFFFFFFF)

def mkframe(ft, sid, fl_a, fl_b, fl_c, n, code_i):
    if ft == 0:
        f = SetupFrame(); f.flags_lease = fl_a; f.flags_resume = fl_b; f.keep_alive_milliseconds = n; f.max_lifetime_milliseconds = n
        f.metadata_encoding = b'a/b'; f.data_encoding = b'c/d'; f.token_length = 1; f.resume_identification_token = b't'
    elif ft == 1:
        f = LeaseFrame(); f.time_to_live = n & 0x7fffffff; f.number_of_requests = n & 0x7fffffff
    elif ft == 2:
        f = KeepAliveFrame(b'k'); f.flags_respond = fl_a; f.last_received_position = n
    elif ft == 3: f = RequestResponseFrame(); f.flags_follows = fl_a
    elif ft == 4: f = RequestFireAndForgetFrame(); f.flags_follows = fl_a
    elif ft == 5: f = RequestStreamFrame(); f.flags_follows = fl_a; f.initial_request_n = n
    elif ft == 6: f = RequestChannelFrame(); f.flags_follows = fl_a; f.flags_complete = fl_b; f.initial_request_n = n
    elif ft == 7: f = RequestNFrame(); f.request_n = n
    elif ft == 8: f = CancelFrame()
    elif ft == 9: f = PayloadFrame(); f.flags_follows = fl_a; f.flags_complete = fl_b; f.flags_next = fl_c
    elif ft == 10: f = ErrorFrame(); f.error_code = ErrorCode(CODES[code_i])
    elif ft == 11: f = MetadataPushFrame(); f.metadata = b'mm'
    elif ft == 12:
        f = ResumeFrame(); f.token_length = 1; f.resume_identification_token = b't'; f.last_server_position = n; f.first_client_position = n
    else: f = ResumeOKFrame(); f.last_received_client_position = n
    if ft in (0, 3, 4, 5, 6, 9, 10): f.data = b'dd'
    f.stream_id = sid
    return parse_or_ignore(f.serialize())       # what the decoder hands to the endpoint

def hostile(ctx: int, ft2: int, sid2: int, a2: bool, b2: bool, c2: bool, n2: int, e2: int) -> bool:
    """
    pre: 0 <= ctx <= 4
    pre: 0 <= ft2 <= 13
    pre: sid2 in (0, 1, 2, 3)
    pre: 0 <= n2 <= 0xffffffff
    pre: 0 <= e2 <= 10
    post: _
    """
    with VLoop() as loop:
        Clock.loop = loop
        t = T(loop)
        s = RSocketServer(t, handler_factory=H); loop.run_ready()
        mine = s.request_response(Payload(b'q'))          # live server-initiated stream id 2
        loop.run_ready()
        if ctx == 1:
            t.q.put_nowait(InvalidFrame())
        elif ctx == 2:
            t.q.put_nowait(mkframe(9, 2, True, False, True, 0, 0))      # PAYLOAD follows on live id 2
        elif ctx == 3:
            t.q.put_nowait(mkframe(3, 1, True, False, False, 0, 0))     # REQUEST_RESPONSE follows on new id 1
        elif ctx == 4:
            t.q.put_nowait(mkframe(5, 3, False, False, False, 1, 0))    # REQUEST_STREAM on id 3 (default handler raises)
        loop.run_ready()
        fr = mkframe(ft2, sid2, a2, b2, c2, n2, e2)
        if fr is not None:
            t.q.put_nowait(fr); loop.run_ready()
        if s._receiver_task.done() or s._sender_task.done(): return False
        n0 = len(t.sent)
        t.q.put_nowait(to_request_response_frame(9, Payload(b'p'))); loop.run_ready()
        ans = [f for _, f in t.sent[n0:] if f.stream_id == 9]
        if len(ans) != 1 or not isinstance(ans[0], PayloadFrame) or bytes(ans[0].data) != b'okp' or not ans[0].flags_complete: return False
        t.q.put_nowait(None); loop.run_ready()
        return not loop._exc
