from simlib import *
from rsocket.transports.tcp import TransportTCP

class W:
    def __init__(self): self.buf = []; self.closed = False
    def write(self, b): self.buf.append(bytes(b))
    async def drain(self): pass
    def close(self): self.closed = True
    async def wait_closed(self): pass

class H(BaseRequestHandler):
    def __init__(self): self.closed = 0; self.futs = []; self.cancelled = []
    async def request_response(self, payload):
        f = create_future(); self.futs.append(f); return f
    async def on_close(self, s, e=None): self.closed += 1

INBOUND = (serialize_with_frame_size_header(to_request_response_frame(1, Payload(b'abc', b'm')))
           + serialize_with_frame_size_header(to_request_response_frame(3, Payload(b'x' * 20, b'')))
           + serialize_with_frame_size_header(to_request_n_frame(5, 3)))

def cut(c: int, err: bool) -> bool:
    """
    pre: 0 <= c <= len(INBOUND)
    post: _
    """
    with VLoop() as loop:
        Clock.loop = loop
        r = asyncio.StreamReader(loop=loop); w = W()
        s = RSocketServer(TransportTCP(r, w), handler_factory=H); loop.run_ready()
        h = s._handler
        mine = s.request_response(Payload(b'mine'))
        sub = Rec(); s.request_stream(Payload(b'st')).subscribe(sub)
        loop.run_ready()
        r.feed_data(INBOUND[:c]); loop.run_ready()
        n_before = len(w.buf)
        if err: r.set_exception(ConnectionResetError())
        else: r.feed_eof()
        loop.run_ready()
        loop.advance_us(5_000_000)
        if not mine.done() or mine.cancelled() or mine.exception() is None: return False
        if sub.log[-1][:2] != 'E:' or len([x for x in sub.log if x[0] in 'EC']) != 1: return False
        if h.closed != 1: return False
        if any(not f.cancelled() for f in h.futs): return False
        if len(s._stream_control._streams) != 0: return False
        if len(w.buf) != n_before: return False
        return s._sender_task is None and s._receiver_task is None and not loop._exc
