from simlib import *

def lease(count: int, ttl_ms: int, dt1_ms: int, dt2_ms: int, nreq1: int, nreq2: int) -> bool:
    """
    pre: 0 <= count <= 0x7fffffff
    pre: 0 <= ttl_ms <= 0x7fffffff
    pre: 0 <= dt1_ms <= 0x7fffffff and 0 <= dt2_ms <= 0x7fffffff
    pre: 0 <= nreq1 <= 2 and 0 <= nreq2 <= 2
    pre: dt1_ms + dt2_ms < 0x7fffffff
    post: _
    """
    with VLoop() as loop:
        Clock.loop = loop
        t = T(loop)
        c = RSocketClient(provider([t]), honor_lease=True, keep_alive_period=timedelta(milliseconds=0x7fffffff), max_lifetime_period=timedelta(milliseconds=0x7fffffff))
        loop.create_task(c.connect()); loop.run_ready()
        futs = []
        for i in range(nreq1):
            futs.append(c.request_response(Payload(b'a')))
        loop.run_ready()
        reqs = [f for (_, f) in t.sent if isinstance(f, RequestResponseFrame)]
        if reqs: return False                 # nothing before first lease
        lf = LeaseFrame(); lf.number_of_requests = count; lf.time_to_live = ttl_ms
        t.q.put_nowait(lf); loop.run_ready()
        t_lease = loop.now_us()
        loop.advance_us(dt1_ms * 1000)
        for i in range(nreq2):
            futs.append(c.request_response(Payload(b'b')))
        loop.run_ready()
        loop.advance_us(dt2_ms * 1000)
        sent = [(ts, f) for (ts, f) in t.sent if isinstance(f, RequestResponseFrame)]
        if len(sent) > count: return False
        for ts, f in sent:
            if ts >= t_lease + ttl_ms * 1000: return False
        ids = [f.stream_id for _, f in sent]
        if ids != sorted(ids) or len(set(ids)) != len(ids): return False
        # completeness: requests issued before lease are released if lease usable
        exp_first = min(nreq1, count) if ttl_ms > 0 else 0
        if dt1_ms > 0 and len([1 for ts, f in sent if ts == t_lease]) != exp_first: return False
        loop.create_task(c.close()); loop.run_ready()
        return True
