import sys, types
import cbmodel
m = types.ModuleType('cbitstruct'); m.unpack_from = cbmodel.unpack_from; m.unpack = cbmodel.unpack; m.pack = cbmodel.pack
sys.modules['cbitstruct'] = m
import struct
def unpack_from(fmt, /, buffer, offset=0):
    size = struct.calcsize(fmt)
    if len(buffer) - offset < size:
        raise struct.error("unpack_from requires a buffer of at least %d bytes" % size)
    return struct.unpack(fmt, buffer[offset:offset + size])
struct.unpack_from = unpack_from
import builtins
def _bytearray(*a):
    if len(a) == 1 and isinstance(a[0], int):
        return builtins.bytearray(bytes(a[0]))
    return builtins.bytearray(*a)
import rsocket.frame
rsocket.frame.bytearray = _bytearray
import logging; logging.disable(logging.CRITICAL)
assert rsocket.frame.ParseHelper.parse_header.__name__ == 'parse_header_cbitstruct'
