"""Exact integer encoding of binary64 RNE for positive rationals p/q with constant q and bounded exponent range."""
import z3, time, sys

def rne_div(num, den):
    """nearest integer to num/den (den>0 constant python int), ties to even; num is z3 Int >= 0"""
    q = num / den            # z3 Int division (floor for positive den)
    r = num % den
    twice = 2 * r
    up = z3.Or(twice > den, z3.And(twice == den, q % 2 == 1))
    return z3.If(up, q + 1, q)

def to_double(s, p, qden, elo, ehi, name):
    """constrain fresh (m, e) s.t. m*2^(e-52) == RN(p/qden), for p>0; returns list of (cond_e, m, e) cases"""
    cases = []
    for e in range(elo, ehi + 1):
        # 2^e <= p/q < 2^(e+1)
        if e >= 0:
            cond = z3.And(p >= (2 ** e) * qden, p < (2 ** (e + 1)) * qden)
        else:
            cond = z3.And(p * (2 ** (-e)) >= qden, p * (2 ** (-e - 1)) < qden)
        # m = RNE(p/q / 2^(e-52)) = RNE(p * 2^(52-e) / q)
        sh = 52 - e
        if sh >= 0:
            m = rne_div(p * (2 ** sh), qden)
        else:
            m = rne_div(p, qden * (2 ** (-sh)))
        cases.append((cond, m, e))
    return cases

def check(fixed, kmax):
    t0 = time.time()
    k = z3.Int('k')
    total_sat = None
    nq = 0
    # us = 1000*k ; ts = RN(us / 10^6) = RN(k/1000)
    for (c1, m1, e1) in to_double(None, k, 1000, -10, 21, 'ts'):
        # ts = m1 * 2^(e1-52); prod = ts*1000 = m1*1000 * 2^(e1-52) ; p2 = m1*1000, q2 = 2^(52-e1) (>0 since e1<=21)
        q2 = 2 ** (52 - e1)
        p2 = m1 * 1000
        for (c2, m2, e2) in to_double(None, p2, q2, max(e1 + 9, -1), e1 + 11, 'pr'):
            # a = m2 * 2^(e2-52); round(a) -> RNE to integer
            sh = 52 - e2
            ai = rne_div(m2, 2 ** sh) if sh >= 0 else m2 * (2 ** (-sh))
            if fixed:
                res = ai
            else:
                # + round(RN(micro/1000)), micro = (1000k) mod 10^6 ; approximate with exact-int path: micro/1000 exact? micro multiple of 1000 -> exact integer
                res = ai + ((1000 * k) % 1000000) / 1000
            s = z3.Solver()
            s.add(k >= 1, k <= kmax, c1, c2, res != k)
            r = s.check(); nq += 1
            if str(r) == 'sat':
                return 'sat', s.model()[k], nq, time.time() - t0
            if str(r) != 'unsat':
                return 'unknown', None, nq, time.time() - t0
    return 'unsat', None, nq, time.time() - t0

# validation against python floats
def validate(samples):
    k = z3.Int('k')
    bad = 0
    for kv in samples:
        want = round((1000 * kv / 10**6) * 1000)
        got = None
        for (c1, m1, e1) in to_double(None, z3.IntVal(kv), 1000, -10, 21, 'ts'):
            if z3.is_true(z3.simplify(c1)):
                m1v = z3.simplify(m1).as_long()
                assert m1v * 2.0 ** (e1 - 52) == kv / 1000, (kv, m1v, e1)
                for (c2, m2, e2) in to_double(None, z3.IntVal(m1v * 1000), 2 ** (52 - e1), max(e1 + 9, -1), e1 + 11, 'pr'):
                    if z3.is_true(z3.simplify(c2)):
                        m2v = z3.simplify(m2).as_long()
                        assert m2v * 2.0 ** (e2 - 52) == (kv / 1000) * 1000, (kv,)
                        sh = 52 - e2
                        got = z3.simplify(rne_div(z3.IntVal(m2v), 2 ** sh)).as_long() if sh >= 0 else m2v * 2 ** (-sh)
        if got != want: bad += 1
    return bad

import random
random.seed(1)
print('validate mismatches:', validate([1, 2, 3, 7, 999, 1000, 1001, 4097, 2**17 + 1, 600000, 2**31 - 1] + [random.randrange(1, 2**31) for _ in range(300)]))
print('fixed  :', check(True, 2**31 - 1))
print('orig   :', check(False, 2**31 - 1))
