from simlib import *
from rsocket.routing.request_router import RequestRouter
from rsocket.routing.routing_request_handler import RoutingRequestHandler
from rsocket.extensions.helpers import composite, route, authenticate_simple, authenticate_bearer, metadata_item
from rsocket.extensions.composite_metadata import CompositeMetadata
from rsocket.extensions.mimetypes import WellKnownMimeTypes
from rsocket.streams.empty_stream import EmptyStream

def run_coro(coro):
    try:
        coro.send(None)
    except StopIteration as e:
        return e.value
    raise RuntimeError('coroutine suspended')

TYPES = ('response', 'stream', 'channel', 'fire_and_forget', 'metadata_push')

def mk_h(calls, k):
    async def h(payload, composite_metadata: CompositeMetadata):
        calls.append((k, bytes(payload.data or b''), len(composite_metadata.items)))
        if k[0] == 'response': return create_future(Payload(b'r'))
        if k[0] == 'stream': return EmptyStream()
        if k[0] == 'channel': return EmptyStream(), None
    return h

def mk_u(calls, k):
    async def u(payload):
        calls.append((k, bytes(payload.data or b''), -1))
        if k[0] == 'response': return create_future(Payload(b'r'))
        if k[0] == 'stream': return EmptyStream()
        if k[0] == 'channel': return EmptyStream(), None
    return u

def build(mask, umask, calls):
    r = RequestRouter()
    for ti, tn in enumerate(TYPES):
        for ri, rn in enumerate(('a', 'b')):
            if mask >> (ti * 2 + ri) & 1:
                getattr(r, tn)(rn)(mk_h(calls, (tn, rn)))
        if umask >> ti & 1:
            getattr(r, tn + '_unknown')()(mk_u(calls, (tn, '?')))
    return r

def routed(target: bool, unknown: bool, others: bool, ti: int, ri: int, auth: int, verifier: int, pos: int, body: bytes) -> bool:
    """
    pre: 0 <= ti <= 4 and 0 <= ri <= 2
    pre: 0 <= auth <= 2 and 0 <= verifier <= 2 and 0 <= pos <= 2
    pre: len(body) <= 2
    post: _
    """
    calls = []
    verified = []
    rsel = ri if ri < 2 else 0
    tbit = 1 << (ti * 2 + rsel)
    mask = (1023 & ~tbit if others else 0) | (tbit if target else 0)
    umask = (31 & ~(1 << ti) if others else 0) | ((1 << ti) if unknown else 0)
    async def verify(route_name, authentication):
        verified.append(route_name)
        if verifier == 2: raise Exception('denied')
    with VLoop() as loop:
        h = RoutingRequestHandler(build(mask, umask, calls), verify if verifier else None)
        rn = ('a', 'b', 'zz')[ri]
        items = [metadata_item(b'f', b'x/y')]
        items.insert(min(pos, len(items)), route(rn))
        if auth == 1: items.append(authenticate_simple('u', 'p'))
        elif auth == 2: items.insert(0, authenticate_bearer('tok'))
        p = Payload(body, composite(*items))
        meth = (h.request_response, h.request_stream, h.request_channel, h.request_fire_and_forget, h.on_metadata_push)[ti]
        res = run_coro(meth(p))
        loop.run_ready()
        gate_closed = verifier != 0 and (auth == 0 or verifier == 2)
        registered = ri < 2 and (mask >> (ti * 2 + ri) & 1)
        if gate_closed: expect = []
        elif registered: expect = [((TYPES[ti], rn), bytes(body), len(items))]
        elif umask >> ti & 1: expect = [((TYPES[ti], '?'), bytes(body), -1)]
        else: expect = []
        return calls == expect
