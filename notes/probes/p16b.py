import shim2
from rsocket.extensions.composite_metadata import CompositeMetadata
from rsocket.extensions.composite_metadata_item import CompositeMetadataItem
from rsocket.extensions.routing import RoutingMetadata
from rsocket.extensions.authentication import AuthenticationSimple, AuthenticationBearer
from rsocket.extensions.authentication_content import AuthenticationContent
from rsocket.extensions.stream_data_mimetype import StreamDataMimetype, StreamDataMimetypes
from rsocket.extensions.mimetypes import WellKnownMimeTypes, ensure_encoding_name
from rsocket.extensions.helpers import composite, route, authenticate_simple, authenticate_bearer, metadata_item
from rsocket.exceptions import RSocketMimetypeTooLong, RSocketError

def rt_tags(tag1: bytes, tag2: bytes) -> bool:
    """
    pre: len(tag1) <= 3 and len(tag2) <= 3
    post: _
    """
    b = CompositeMetadata([RoutingMetadata([tag1, tag2])]).serialize()
    back = CompositeMetadata().parse(b)
    return len(back.items) == 1 and isinstance(back.items[0], RoutingMetadata) and back.items[0].tags == [tag1, tag2] and back.serialize() == b

def rt_auth(user: bytes, pw: bytes) -> bool:
    """
    pre: len(user) <= 3 and len(pw) <= 3
    post: _
    """
    b = CompositeMetadata([AuthenticationContent(AuthenticationSimple(user, pw))]).serialize()
    back = CompositeMetadata().parse(b)
    a = back.items[0]
    return len(back.items) == 1 and isinstance(a, AuthenticationContent) and a.authentication.username == user and a.authentication.password == pw and back.serialize() == b

def rt_custom(custom: bytes, body: bytes, wk: int) -> bool:
    """
    pre: 1 <= len(custom) <= 3 and len(body) <= 3
    pre: 0 <= wk <= 0x28
    post: _
    """
    wkt = WellKnownMimeTypes.require_by_id(wk)
    b = CompositeMetadata([CompositeMetadataItem(custom, body), CompositeMetadataItem(wkt, body)]).serialize()
    back = CompositeMetadata().parse(b)
    if len(back.items) != 2: return False
    c, w = back.items
    return ensure_encoding_name(c.encoding) == custom and c.content == body and ensure_encoding_name(w.encoding) == wkt and w.content == body and back.serialize() == b

def mime_len(n: int) -> bool:
    """
    pre: 1 <= n <= 300
    post: _
    """
    name = b'x' * n
    try:
        b = CompositeMetadata([CompositeMetadataItem(name, b'')]).serialize()
    except RSocketMimetypeTooLong:
        return n > 128
    if n > 128: return False
    back = CompositeMetadata().parse(b)
    return back.items[0].encoding == name
