import shim
import logging; logging.disable(logging.CRITICAL)
from typing import Dict
from rsocket.stream_control import StreamControl, MAX_STREAM_ID
from rsocket.exceptions import RSocketStreamAllocationFailure

def ref_next(cur, active, mask):
    c = cur
    for _ in range(len(active) + 3):
        c = (c + 2) & mask
        if c != 0 and c not in active:
            return c
    return None

def alloc_step(cur: int, streams: Dict[int, int]) -> bool:
    """
    pre: 0 <= cur <= 0x7FFFFFFF
    pre: len(streams) <= 2
    pre: all(1 <= k <= 0x7FFFFFFF for k in streams)
    post: _
    """
    sc = StreamControl(1)
    sc._current_stream_id = cur
    sc._streams = streams
    r = sc.allocate_stream()
    return r != 0 and (r & 1) == (cur & 1) and r not in streams and r == ref_next(cur, streams, MAX_STREAM_ID) and 1 <= r <= MAX_STREAM_ID
