import shim
import logging; logging.disable(logging.CRITICAL)
class PyBytesIO:
    def __init__(self, initial=b''):
        self._b = initial if initial is not None else b''
        self._pos = 0
    def read(self, n=-1):
        if n is None or n < 0:
            out = self._b[self._pos:]
        else:
            out = self._b[self._pos:self._pos + n]
        self._pos += len(out)
        return out
import rsocket.frame_fragmenter
rsocket.frame_fragmenter.BytesIO = PyBytesIO
import rsocket.extensions.authentication
rsocket.extensions.authentication.bytearray = shim._bytearray
