import shim3
from rsocket.frame_parser import FrameParser
from rsocket.frame import *
from p19x import drive, wellshaped

def msg_63_10(body: bytes) -> bool:
    """
    pre: len(body) == 10
    pre: body[4] >> 2 == 63
    post: _
    """
    p = FrameParser()
    out = drive(p.receive_data(bytes([0, 0, 10]) + body))
    q = FrameParser()
    out2 = drive(q.receive_data(body, 0))
    return len(out) <= 1 and len(out2) <= 1 and len(p._buffer) == 0 and len(q._buffer) == 0 and all(wellshaped(f) for f in out + out2) and len(out) == len(out2)

def msg_7_12(body: bytes) -> bool:
    """
    pre: len(body) == 12
    pre: body[4] >> 2 == 7
    post: _
    """
    p = FrameParser()
    out = drive(p.receive_data(bytes([0, 0, 12]) + body))
    q = FrameParser()
    out2 = drive(q.receive_data(body, 0))
    return len(out) <= 1 and len(out2) <= 1 and len(p._buffer) == 0 and len(q._buffer) == 0 and all(wellshaped(f) for f in out + out2) and len(out) == len(out2)

def msg_10_11(body: bytes) -> bool:
    """
    pre: len(body) == 11
    pre: body[4] >> 2 == 10
    post: _
    """
    p = FrameParser()
    out = drive(p.receive_data(bytes([0, 0, 11]) + body))
    q = FrameParser()
    out2 = drive(q.receive_data(body, 0))
    return len(out) <= 1 and len(out2) <= 1 and len(p._buffer) == 0 and len(q._buffer) == 0 and all(wellshaped(f) for f in out + out2) and len(out) == len(out2)

def msg_1_20(body: bytes) -> bool:
    """
    pre: len(body) == 20
    pre: body[4] >> 2 == 1
    post: _
    """
    p = FrameParser()
    out = drive(p.receive_data(bytes([0, 0, 20]) + body))
    q = FrameParser()
    out2 = drive(q.receive_data(body, 0))
    return len(out) <= 1 and len(out2) <= 1 and len(p._buffer) == 0 and len(q._buffer) == 0 and all(wellshaped(f) for f in out + out2) and len(out) == len(out2)

def msg_11_12(body: bytes) -> bool:
    """
    pre: len(body) == 12
    pre: body[4] >> 2 == 11
    post: _
    """
    p = FrameParser()
    out = drive(p.receive_data(bytes([0, 0, 12]) + body))
    q = FrameParser()
    out2 = drive(q.receive_data(body, 0))
    return len(out) <= 1 and len(out2) <= 1 and len(p._buffer) == 0 and len(q._buffer) == 0 and all(wellshaped(f) for f in out + out2) and len(out) == len(out2)

def msg_4_9(body: bytes) -> bool:
    """
    pre: len(body) == 9
    pre: body[4] >> 2 == 4
    post: _
    """
    p = FrameParser()
    out = drive(p.receive_data(bytes([0, 0, 9]) + body))
    q = FrameParser()
    out2 = drive(q.receive_data(body, 0))
    return len(out) <= 1 and len(out2) <= 1 and len(p._buffer) == 0 and len(q._buffer) == 0 and all(wellshaped(f) for f in out + out2) and len(out) == len(out2)

def msg_3_14(body: bytes) -> bool:
    """
    pre: len(body) == 14
    pre: body[4] >> 2 == 3
    post: _
    """
    p = FrameParser()
    out = drive(p.receive_data(bytes([0, 0, 14]) + body))
    q = FrameParser()
    out2 = drive(q.receive_data(body, 0))
    return len(out) <= 1 and len(out2) <= 1 and len(p._buffer) == 0 and len(q._buffer) == 0 and all(wellshaped(f) for f in out + out2) and len(out) == len(out2)


def msg_4_12b(body: bytes) -> bool:
    """
    pre: len(body) == 12
    pre: body[4] >> 2 == 4
    pre: body[6] == 0 and body[7] == 0 and body[8] <= 40
    post: _
    """
    p = FrameParser()
    out = drive(p.receive_data(bytes([0, 0, 12]) + body))
    q = FrameParser()
    out2 = drive(q.receive_data(body, 0))
    return len(out) <= 1 and len(out2) <= 1 and len(p._buffer) == 0 and len(q._buffer) == 0 and all(wellshaped(f) for f in out + out2) and len(out) == len(out2)


def msg_10_11b(body: bytes) -> bool:
    """
    pre: len(body) == 11
    pre: body[4] >> 2 == 10
    pre: body[6] == 0 and body[7] == 0 and body[8] <= 40
    post: _
    """
    p = FrameParser()
    out = drive(p.receive_data(bytes([0, 0, 11]) + body))
    q = FrameParser()
    out2 = drive(q.receive_data(body, 0))
    return len(out) <= 1 and len(out2) <= 1 and len(p._buffer) == 0 and len(q._buffer) == 0 and all(wellshaped(f) for f in out + out2) and len(out) == len(out2)
