import shim2
import asyncio
from datetime import timedelta, datetime
from vloop import VLoop
import rsocket.rsocket_client as rc, rsocket.lease as rl
from rsocket.rsocket_client import RSocketClient
from rsocket.rsocket_server import RSocketServer
from rsocket.transports.transport import Transport
from rsocket.payload import Payload
from rsocket.frame import *
from rsocket.frame_builders import *
from rsocket.request_handler import BaseRequestHandler
from rsocket.helpers import create_future, create_response, DefaultPublisherSubscription
from reactivestreams.subscriber import Subscriber

EPOCH = datetime(2020, 1, 1)
class Clock:
    loop = None
    @classmethod
    def now(cls):
        return EPOCH + timedelta(microseconds=cls.loop.now_us())
rc.datetime = Clock
rl.datetime = Clock

class T(Transport):
    def __init__(self, loop=None):
        super().__init__(); self.sent = []; self.q = asyncio.Queue(); self.closed = 0; self.loop = loop
    async def send_frame(self, f):
        self.sent.append((self.loop.now_us() if self.loop else 0, parse_or_ignore(f.serialize())))
    async def next_frame_generator(self):
        item = await self.q.get()
        if item is None: return None
        if isinstance(item, Exception): raise item
        async def g():
            yield item
        return g()
    async def close(self): self.closed += 1

async def provider(ts):
    for t in ts: yield t

class Rec(Subscriber):
    def __init__(self): self.log = []; self.subscription = None
    def on_subscribe(self, s): self.log.append('S'); self.subscription = s
    def on_next(self, v, is_complete=False): self.log.append('NC' if is_complete else 'N')
    def on_error(self, e): self.log.append('E:' + type(e).__name__)
    def on_complete(self): self.log.append('C')
