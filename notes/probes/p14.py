import shim2
from rsocket.frame import PayloadFrame, RequestStreamFrame, RequestChannelFrame, RequestResponseFrame, RequestFireAndForgetFrame
from rsocket.frame_fragment_cache import FrameFragmentCache

class Span:
    """opaque byte range [off, off+n) of an original buffer `tag`"""
    __slots__ = ('tag', 'off', 'n')
    def __init__(self, tag, off, n): self.tag = tag; self.off = off; self.n = n
    def __len__(self): return self.n
    def __bool__(self):
        if self.n > 0: return True
        return False
    def __getitem__(self, sl):
        assert isinstance(sl, slice) and sl.step is None
        start = 0 if sl.start is None else sl.start
        stop = self.n if sl.stop is None else sl.stop
        if start > self.n: start = self.n
        if stop > self.n: stop = self.n
        if stop < start: stop = start
        return Span(self.tag, self.off + start, stop - start)
    def __add__(self, other):
        if isinstance(other, Span):
            if other.n == 0: return self
            if self.n == 0: return other
            if other.tag != self.tag or other.off != self.off + self.n:
                raise AssertionError('non-contiguous merge')
            return Span(self.tag, self.off, self.n + other.n)
        if len(other) == 0: return self
        raise AssertionError('merge with foreign bytes')
    def __radd__(self, other):
        if len(other) == 0: return self
        raise AssertionError('merge with foreign bytes')

CLS = (PayloadFrame, RequestResponseFrame, RequestFireAndForgetFrame, RequestStreamFrame, RequestChannelFrame)

def frag(cls_i: int, dlen: int, mlen: int, fsize: int, lenhdr: bool, complete: bool, n: int) -> bool:
    """
    pre: 0 <= cls_i <= 4
    pre: 64 <= fsize <= 100000
    pre: 0 <= dlen <= 2 * fsize + 4
    pre: 0 <= mlen <= 2 * fsize + 4
    pre: 1 <= n <= 0x7fffffff
    post: _
    """
    f = CLS[cls_i]()
    f.stream_id = 5
    if cls_i >= 3: f.initial_request_n = n
    if cls_i in (0, 4): f.flags_complete = complete
    f.data = Span('d', 0, dlen); f.metadata = Span('m', 0, mlen)
    f.fragment_size_bytes = fsize
    cache = FrameFragmentCache()
    out = None
    i = 0
    seen_data = False
    single_len = 6 + (4 if cls_i >= 3 else 0) + (3 + mlen if mlen else 0) + dlen + (3 if lenhdr else 0)
    while True:
        fr = f.get_next_fragment(lenhdr)
        if fr is None:
            break
        i += 1
        if i > 12: return False
        if out is not None: return False           # nothing after the last fragment
        fr.serialize_frame_prefix()
        wire = fr.length + (3 if lenhdr else 0)
        if wire > fsize + 3: return False          # (+3: tolerate the known metadata-length overshoot in this probe)
        if i == 1:
            if type(fr) is not CLS[cls_i]: return False
            if cls_i >= 3 and fr.initial_request_n != n: return False
        elif type(fr) is not PayloadFrame: return False
        if fr.data is not None and len(fr.data) > 0: seen_data = True
        if seen_data and fr.metadata is not None and len(fr.metadata) > 0 and not (fr.data is not None and len(fr.data) > 0 and i == i):
            return False
        if fr.flags_follows and fr.flags_complete: return False
        out = cache.append(fr)
        if fr.flags_follows != (out is None): return False
    if out is None: return False
    if single_len <= fsize and i != 1: return False
    od = out.data; om = out.metadata
    if (0 if od is None else len(od)) != dlen or (0 if om is None else len(om)) != mlen: return False
    if dlen and (od.off != 0 or od.tag != 'd'): return False
    if mlen and (om.off != 0 or om.tag != 'm'): return False
    if type(out) is not CLS[cls_i]: return False
    if cls_i == 0 and bool(out.flags_complete) != complete: return False
    return len(cache._frames_by_stream_id) == 0
