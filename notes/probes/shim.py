import sys
sys.modules["cbitstruct"] = None
import struct
_orig_unpack_from = struct.unpack_from
def unpack_from(fmt, /, buffer, offset=0):
    size = struct.calcsize(fmt)
    if offset < 0:
        offset += len(buffer)
    if len(buffer) - offset < size:
        raise struct.error("unpack_from requires a buffer of at least %d bytes" % size)
    return struct.unpack(fmt, buffer[offset:offset + size])
struct.unpack_from = unpack_from
import builtins
def _bytearray(*a):
    if len(a) == 1 and isinstance(a[0], int):
        return builtins.bytearray(bytes(a[0]))
    return builtins.bytearray(*a)
import rsocket.frame
rsocket.frame.bytearray = _bytearray
