import shim3
import rsocket.frame as F
from rsocket.frame import Header, parse_header_native, parse_header_cbitstruct
from rsocket.exceptions import RSocketUnknownFrameType

def agree(hdr: bytes) -> bool:
    """
    pre: len(hdr) == 6
    pre: hdr[0] < 128
    pre: hdr[4] >> 2 == 10
    post: _
    """
    a = Header(); b = Header()
    try:
        fa = parse_header_native(a, hdr, 0); ea = None
    except RSocketUnknownFrameType as e:
        fa = None; ea = e.frame_type_id
    try:
        fb = parse_header_cbitstruct(b, hdr, 0); eb = None
    except RSocketUnknownFrameType as e:
        fb = None; eb = e.frame_type_id
    if ea is not None or eb is not None:
        return ea == eb
    return (a.stream_id == b.stream_id and a.frame_type == b.frame_type and a.flags_ignore == b.flags_ignore
            and a.flags_metadata == b.flags_metadata and fa.flags_follows_resume_respond == fb.flags_follows_resume_respond
            and fa.flags_complete_lease == fb.flags_complete_lease and fa.flags_next == fb.flags_next and a.length == b.length)
