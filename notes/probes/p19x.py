import shim3
from rsocket.frame_parser import FrameParser
from rsocket.frame import *

def drive(agen, cap=8):
    out = []
    while True:
        try:
            agen.__anext__().send(None)
        except StopIteration as e:
            out.append(e.value)
            if len(out) > cap:
                raise RuntimeError('too many frames')
        except StopAsyncIteration:
            return out

KNOWN = (SetupFrame, LeaseFrame, KeepAliveFrame, RequestResponseFrame, RequestFireAndForgetFrame, RequestStreamFrame,
         RequestChannelFrame, RequestNFrame, CancelFrame, PayloadFrame, ErrorFrame, MetadataPushFrame, ResumeFrame, ResumeOKFrame)

def wellshaped(f):
    if isinstance(f, InvalidFrame): return True
    if type(f) not in KNOWN: return False
    if not isinstance(f.stream_id, int): return False
    if isinstance(f, (RequestStreamFrame, RequestChannelFrame)) and not (0 <= f.initial_request_n <= 0xffffffff): return False
    if isinstance(f, RequestNFrame) and not (0 <= f.request_n <= 0xffffffff): return False
    return True

def msg8(body: bytes) -> bool:
    """
    pre: len(body) == 8
    post: _
    """
    p = FrameParser()
    out = drive(p.receive_data(bytes([0, 0, 8]) + body))
    q = FrameParser()
    out2 = drive(q.receive_data(body, 0))
    return len(out) <= 1 and len(out2) <= 1 and len(p._buffer) == 0 and len(q._buffer) == 0 and all(wellshaped(f) for f in out + out2) and len(out) == len(out2)
