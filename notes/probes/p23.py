from simlib import *
import reactivex
from reactivex import operators
from rsocket.reactivex.reactivex_client import ReactiveXClient
from rsocket.reactivex.reactivex_handler import BaseReactivexHandler
from rsocket.reactivex.reactivex_handler_adapter import reactivex_handler_factory

class Obs:
    def __init__(self): self.log = []
    def on_next(self, v): self.log.append(('N', bytes(v.data)))
    def on_error(self, e): self.log.append(('E', str(e)))
    def on_completed(self): self.log.append(('C',))

def client_stream(m: int, limit: int, err_at: int, dispose_after: int) -> bool:
    """
    pre: 0 <= m <= 3
    pre: 1 <= limit <= 0x7fffffff
    pre: -1 <= err_at <= 3
    pre: -1 <= dispose_after <= 3
    post: _
    """
    with VLoop() as loop:
        Clock.loop = loop
        t = T(loop)
        c = RSocketClient(provider([t]), keep_alive_period=timedelta(seconds=1000), max_lifetime_period=timedelta(seconds=2000))
        loop.create_task(c.connect()); loop.run_ready()
        rx = ReactiveXClient(c)
        o = Obs()
        disp = rx.request_stream(Payload(b'q'), request_limit=limit).subscribe(on_next=o.on_next, on_error=o.on_error, on_completed=o.on_completed)
        loop.run_ready()
        reqs = [f for _, f in t.sent if isinstance(f, RequestStreamFrame)]
        if len(reqs) != 1 or reqs[0].initial_request_n != limit: return False
        sid = reqs[0].stream_id
        expect = []
        disposed = False
        for i in range(m):
            if dispose_after == i:
                disp.dispose(); loop.run_ready(); disposed = True
                break
            if err_at == i:
                fr = ErrorFrame(); fr.stream_id = sid; fr.error_code = ErrorCode.APPLICATION_ERROR; fr.data = b'boom'
                t.q.put_nowait(fr); loop.run_ready(); expect.append(('E', 'boom'))
                break
            t.q.put_nowait(to_payload_frame(sid, Payload(bytes([65 + i])), complete=False)); loop.run_ready()
            expect.append(('N', bytes([65 + i])))
        else:
            if dispose_after < 0 or dispose_after >= m:
                if err_at < 0 or err_at >= m:
                    t.q.put_nowait(to_payload_frame(sid, Payload(), complete=True, is_next=False)); loop.run_ready()
                    expect.append(('C',))
        if o.log != expect: return False
        cancels = [f for _, f in t.sent if isinstance(f, CancelFrame)]
        if disposed != (len(cancels) == 1): return False
        rn = [f.request_n for _, f in t.sent if isinstance(f, RequestNFrame)]
        if any(n != limit for n in rn): return False
        delivered = len([e for e in expect if e[0] == 'N'])
        if len(rn) != delivered // limit and not disposed: return False
        loop.create_task(c.close()); loop.run_ready()
        return len(c._stream_control._streams) == 0
