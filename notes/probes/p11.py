import shim2
import asyncio
from vloop import VLoop
from rsocket.rsocket_server import RSocketServer
from rsocket.transports.transport import Transport
from rsocket.frame import *
from rsocket.payload import Payload
from rsocket.frame_fragment_cache import FrameFragmentCache

PAT = bytes(range(256)) * 2

class SimTransport(Transport):
    def __init__(self, lenhdr):
        super().__init__()
        self.sent = []
        self.inbox = asyncio.Queue()
        self.hook = None
        self.lenhdr = lenhdr
    def requires_length_header(self): return self.lenhdr
    async def send_frame(self, frame):
        self.sent.append(parse_or_ignore(frame.serialize()))
        if self.hook: self.hook(len(self.sent))
    async def next_frame_generator(self):
        item = await self.inbox.get()
        return None
    async def close(self): pass

def enqueue(s, sid, kind, n, tag):
    if kind == 0:
        s.send_payload(sid, Payload(bytes([tag]) + PAT[:n], None), complete=False)
    elif kind == 1:
        s.send_payload(sid, Payload(bytes([tag]) + PAT[:n], None), complete=True)
    elif kind == 2:
        s.send_complete(sid)
    else:
        s.send_error(sid, RuntimeError('x'))

def order(s1: int, k1: int, n1: int, s2: int, k2: int, n2: int, m2: int, lenhdr: bool) -> bool:
    """
    pre: s1 in (2, 4) and s2 in (2, 4)
    pre: 0 <= k1 <= 1 and 0 <= k2 <= 3
    pre: 0 <= n1 <= 3 and 0 <= n2 <= 3
    pre: 0 <= m2 <= 2
    post: _
    """
    with VLoop() as loop:
        t = SimTransport(lenhdr)
        s = RSocketServer(t, fragment_size_bytes=64)
        done = [False]
        def hook(count):
            if not done[0] and count == m2:
                done[0] = True
                enqueue(s, s2, k2, n2, 2)
        if m2 > 0:
            t.hook = hook
        L = (0, 40, 100, 150)
        n1 = L[n1]; n2 = L[n2]
        enqueue(s, s1, k1, n1, 1)
        if m2 == 0:
            enqueue(s, s2, k2, n2, 2)
        loop.run_ready()
        if m2 > 0 and not done[0]:
            done[0] = True
            enqueue(s, s2, k2, n2, 2)
            loop.run_ready()
        # monitor: per stream contiguity: once a follows-frame of stream X sent, next frame of X must be its continuation
        cache = FrameFragmentCache()
        out = {2: [], 4: []}
        for f in t.sent:
            if isinstance(f, PayloadFrame):
                c = cache.append(f)
                if c is not None:
                    out[f.stream_id].append(('P', bytes(c.data or b''), c.flags_complete))
            else:
                if f.stream_id in cache._frames_by_stream_id:
                    return False
                out[f.stream_id].append(('E',))
        exp = {2: [], 4: []}
        for (sid, k, n, tag) in ((s1, k1, n1, 1), (s2, k2, n2, 2)):
            if k == 0: exp[sid].append(('P', bytes([tag]) + PAT[:n], False))
            elif k == 1: exp[sid].append(('P', bytes([tag]) + PAT[:n], True))
            elif k == 2: exp[sid].append(('P', b'', True))
            else: exp[sid].append(('E',))
        t.inbox.put_nowait(None); loop.run_ready()
        return out == exp
