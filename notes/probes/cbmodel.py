"""pure-Python model of the cbitstruct calls rsocket makes (big-endian, MSB first)"""
import re
def _parse(fmt):
    return [(k, int(n)) for k, n in re.findall(r'([ub])(\d+)', fmt)]
def _bits_total(items): return sum(n for _, n in items)
def unpack_from(fmt, buffer, offset=0):
    items = _parse(fmt)
    nbytes = (_bits_total(items) + 7) // 8
    chunk = buffer[offset:offset + nbytes]
    if len(chunk) < nbytes:
        raise TypeError('unpack requires at least %d bits to unpack' % _bits_total(items))
    out = []
    pos = 0
    for k, n in items:
        # field occupies bits [pos, pos+n) counted from the MSB of chunk[0]; assemble it byte by byte
        val = 0
        bit = pos
        end = pos + n
        while bit < end:
            byte_i = bit // 8
            hi = bit % 8                      # first bit inside this byte (0 = MSB)
            take = min(8 - hi, end - bit)     # number of bits taken from this byte
            lo = 8 - hi - take                # bits below the taken range
            part = (chunk[byte_i] // (2 ** lo)) % (2 ** take)
            val = val * (2 ** take) + part
            bit += take
        out.append(val if k == 'u' else val != 0)
        pos = end
    return tuple(out)
def unpack(fmt, buffer): return unpack_from(fmt, buffer, 0)
def pack(fmt, *vals):
    items = _parse(fmt)
    v = 0
    for (k, n), x in zip(items, vals):
        x = int(x)
        if not (0 <= x < 2 ** n): raise TypeError('value out of range')
        v = v * (2 ** n) + x
    nbytes = (_bits_total(items) + 7) // 8
    v *= 2 ** (nbytes * 8 - _bits_total(items))
    return v.to_bytes(nbytes, 'big')
