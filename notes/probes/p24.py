from simlib import *

class Pub(DefaultPublisherSubscription):
    """recording application publisher for the requester's outbound direction"""
    def __init__(self): self.requested = []; self.cancelled = 0; self.done = False
    def request(self, n): self.requested.append(n)
    def cancel(self): self.cancelled += 1
    def emit(self, data, complete=False):
        if not self.done:
            self._subscriber.on_next(Payload(data), complete)
            if complete: self.done = True
    def complete(self):
        if not self.done:
            self._subscriber.on_complete(); self.done = True

def grammar_ok(log):
    if not log: return True
    if log[0] != 'S': return False
    term = False
    for x in log[1:]:
        if term or x == 'S': return False
        if x == 'NC' or x == 'C' or x[:2] == 'E:': term = True
    return True

def chan(e1: int, e2: int, e3: int, e4: int, f1: bool, f2: bool, f3: bool, f4: bool, g1: bool, g2: bool, g3: bool, g4: bool, n: int) -> bool:
    """
    pre: 0 <= e1 <= 7 and 0 <= e2 <= 7 and 0 <= e3 <= 7 and 0 <= e4 <= 7
    pre: 1 <= n <= 0x7fffffff
    post: _
    """
    with VLoop() as loop:
        Clock.loop = loop
        t = T(loop)
        c = RSocketClient(provider([t]), keep_alive_period=timedelta(seconds=1000), max_lifetime_period=timedelta(seconds=2000))
        loop.create_task(c.connect()); loop.run_ready()
        pub = Pub(); sub = Rec()
        c.request_channel(Payload(b'q'), pub).initial_request_n(n).subscribe(sub)
        loop.run_ready()
        peer_done = False      # peer finished its sending direction (complete/error)
        peer_dead = False      # peer sent ERROR/CANCEL-all: nothing more from it
        closed = False
        for e, f, g in ((e1, f1, g1), (e2, f2, g2), (e3, f3, g3), (e4, f4, g4)):
            if closed: break
            if e == 0:       # inbound PAYLOAD
                if peer_done: continue
                t.q.put_nowait(to_payload_frame(1, Payload(b'd'), complete=f, is_next=g or not f))
                if f: peer_done = True
            elif e == 1:     # inbound ERROR
                if peer_dead: continue
                fr = ErrorFrame(); fr.stream_id = 1; fr.error_code = ErrorCode.APPLICATION_ERROR; fr.data = b'x'
                t.q.put_nowait(fr); peer_done = True; peer_dead = True
            elif e == 2:     # inbound CANCEL (responder no longer wants our elements)
                if peer_dead: continue
                t.q.put_nowait(to_cancel_frame(1))
            elif e == 3:     # inbound REQUEST_N
                if peer_dead: continue
                t.q.put_nowait(to_request_n_frame(1, n))
            elif e == 4:     # local cancel of the inbound direction
                sub.subscription.cancel()
            elif e == 5:     # local publisher emits (maybe with complete)
                pub.emit(b'o', f)
            elif e == 6:     # local publisher completes
                pub.complete()
            else:            # connection lost
                t.q.put_nowait(None); closed = True
            loop.run_ready()
        loop.create_task(c.close()); loop.run_ready()
        if not grammar_ok(sub.log): return False
        if loop._exc: return False
        # wire legality (requester role): nothing after own CANCEL+own complete, no payload after own complete
        own_complete = False; own_cancel = False
        for ts, fr in t.sent:
            if fr.stream_id != 1: continue
            if isinstance(fr, PayloadFrame):
                if own_complete: return False
                if fr.flags_complete: own_complete = True
            elif isinstance(fr, CancelFrame):
                if own_cancel: return False
                own_cancel = True
            elif isinstance(fr, ErrorFrame):
                if own_complete: return False
                own_complete = True
        return True
