from simlib import *
from rsocket.exceptions import RSocketTransportError

class TT(T):
    def __init__(self, loop, suspend):
        super().__init__(loop); self.suspend = suspend; self.connected = None
    async def connect(self):
        if self.suspend:
            self.connected = self.loop.create_future()
            await self.connected

class H(BaseRequestHandler):
    def __init__(self): self.timeouts = 0; self.closed = 0
    async def on_keepalive_timeout(self, d, sock):
        self.timeouts += 1
        await sock.reconnect()
    async def on_close(self, s, e=None): self.closed += 1

def setup_first(suspend: bool, when: int, kind: int, wait_ms: int) -> bool:
    """
    pre: 0 <= when <= 2 and 0 <= kind <= 3
    pre: 0 <= wait_ms <= 2500
    post: _
    """
    with VLoop() as loop:
        Clock.loop = loop
        t = TT(loop, suspend)
        c = RSocketClient(provider([t]), keep_alive_period=timedelta(seconds=1), max_lifetime_period=timedelta(seconds=30))
        def req():
            if kind == 0: c.request_response(Payload(b'x'))
            elif kind == 1: c.fire_and_forget(Payload(b'x'))
            elif kind == 2: c.request_stream(Payload(b'x')).subscribe(Rec())
            else: c.metadata_push(b'm')
        loop.create_task(c.connect())
        loop.run_iteration() if hasattr(loop, 'run_iteration') else None
        if when == 0: req()
        loop.run_ready()
        if when == 1: req(); loop.run_ready()
        if suspend:
            loop.advance_us(wait_ms * 1000)
            t.connected.set_result(None)
        loop.run_ready()
        if when == 2: req()
        loop.run_ready()
        frames = [f for _, f in t.sent]
        ok = len(frames) >= 1 and isinstance(frames[0], SetupFrame) and len([f for f in frames if isinstance(f, SetupFrame)]) == 1
        loop.create_task(c.close()); loop.run_ready()
        return ok

def reconnect(cause: int, pending: bool, after_ms: int) -> bool:
    """
    pre: 0 <= cause <= 3
    pre: 0 <= after_ms <= 3000
    post: _
    """
    with VLoop() as loop:
        Clock.loop = loop
        t1, t2 = T(loop), T(loop)
        c = RSocketClient(provider([t1, t2]), handler_factory=H, keep_alive_period=timedelta(seconds=1), max_lifetime_period=timedelta(seconds=3))
        loop.create_task(c.connect()); loop.run_ready()
        fut = c.request_response(Payload(b'p')) if pending else None
        loop.run_ready()
        if cause == 0:
            t1.q.put_nowait(None); loop.run_ready(); loop.create_task(c.reconnect())
        elif cause == 1:
            t1.q.put_nowait(RSocketTransportError()); loop.run_ready(); loop.create_task(c.reconnect())
        elif cause == 2:
            loop.advance_us(7_000_000)          # keepalive timeout -> handler reconnects
        else:
            loop.create_task(c.reconnect())
        loop.run_ready()
        loop.advance_us(after_ms * 1000)
        if fut is not None and not fut.done(): return False
        if t1.closed < 1: return False
        f2 = [f for _, f in t2.sent]
        if not f2 or not isinstance(f2[0], SetupFrame): return False
        n0 = len(t2.sent)
        r = c.request_response(Payload(b'n')); loop.run_ready()
        new = [f for _, f in t2.sent[n0:] if isinstance(f, RequestResponseFrame)]
        if len(new) != 1 or new[0].stream_id != 1: return False
        t2.q.put_nowait(to_payload_frame(1, Payload(b'ans'), complete=True)); loop.run_ready()
        if not r.done() or r.exception() is not None or bytes(r.result().data) != b'ans': return False
        loop.create_task(c.close()); loop.run_ready()
        return True
