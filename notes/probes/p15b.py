from simlib import *

class H(BaseRequestHandler):
    def __init__(self): self.timeouts = []
    async def on_keepalive_timeout(self, d, sock): self.timeouts.append(Clock.loop.now_us())

L_MS = 2000

def ka_timeout(g1: int, g2: int, s: int) -> bool:
    """
    pre: 0 <= g1 <= 5000 and 0 <= g2 <= 5000
    pre: 0 <= s <= 7000
    post: _
    """
    with VLoop() as loop:
        Clock.loop = loop
        t = T(loop)
        c = RSocketClient(provider([t]), handler_factory=H, keep_alive_period=timedelta(seconds=1000), max_lifetime_period=timedelta(milliseconds=L_MS))
        loop.create_task(c.connect()); loop.run_ready()
        h = c._handler
        ok_gaps = True
        for g in (g1, g2):
            loop.advance_us(g * 1000)
            if g > L_MS: ok_gaps = False
            if ok_gaps and h.timeouts: return False          # no false timeout while gaps <= L
            if h.timeouts: break
            t.q.put_nowait(KeepAliveFrame()); loop.run_ready()
        loop.advance_us(s * 1000)
        if ok_gaps and s <= L_MS and h.timeouts: return False
        if ok_gaps and s > 2 * L_MS and not h.timeouts: return False
        loop.create_task(c.close()); loop.run_ready()
        return c._sender_task is None

def ka_ticks(T_ms: int) -> bool:
    """
    pre: 0 <= T_ms <= 6000
    post: _
    """
    P_MS = 700
    with VLoop() as loop:
        Clock.loop = loop
        t = T(loop)
        c = RSocketClient(provider([t]), handler_factory=H, keep_alive_period=timedelta(milliseconds=P_MS), max_lifetime_period=timedelta(seconds=100000))
        loop.create_task(c.connect()); loop.run_ready()
        loop.advance_us(T_ms * 1000)
        ks = [ts for ts, f in t.sent if isinstance(f, KeepAliveFrame) and f.flags_respond]
        for i, ts in enumerate(ks):
            if ts != (i + 1) * P_MS * 1000: return False
        if len(ks) != T_ms // P_MS: return False
        loop.create_task(c.close()); loop.run_ready()
        return True
