import shim2
import rsocket.frame_parser as FP
from rsocket.frame_parser import FrameParser
from rsocket.frame import InvalidFrame

def stub_parse(buf):
    if len(buf) > 0 and buf[0] == 0xFF:
        raise ValueError('bad')
    return ('F', bytes(buf))
FP.parse_or_ignore = stub_parse

def drive(agen, cap=20):
    out = []
    while True:
        try:
            agen.__anext__().send(None)
        except StopIteration as e:
            v = e.value
            out.append(('invalid',) if isinstance(v, InvalidFrame) else v)
            if len(out) > cap:
                raise RuntimeError('too many frames')
        except StopAsyncIteration:
            return out

def step(buf: bytes, chunk: bytes) -> bool:
    """
    pre: len(buf) == 4 and len(chunk) == 6
    post: _
    """
    p = FrameParser()
    a = drive(p.receive_data(buf))
    a += drive(p.receive_data(chunk))
    q = FrameParser()
    b = drive(q.receive_data(buf + chunk))
    return a == b and bytes(p._buffer) == bytes(q._buffer)
