from simlib import *
from rsocket.transports.tcp import TransportTCP
from rsocket.streams.stream_from_generator import StreamFromGenerator

class Pipe:
    """one direction of a TCP link: bytes written by A are held until the harness delivers them (in chunks) to B's StreamReader"""
    def __init__(self, loop): self.pending = b''; self.reader = asyncio.StreamReader(loop=loop); self.closed = False
    def write(self, b): self.pending += bytes(b)
    async def drain(self): pass
    def close(self): self.closed = True
    async def wait_closed(self): pass
    def deliver(self, n):
        chunk, self.pending = self.pending[:n], self.pending[n:]
        if chunk: self.reader.feed_data(chunk)
        return len(chunk)

L = (0, 40, 100, 150)
def pay(tag, i): return Payload(bytes([tag]) * (1 + L[i]), bytes([tag + 1]) * L[(i + 1) % 4])

class H(BaseRequestHandler):
    def __init__(self): self.fnf = []; self.seen = []
    async def request_response(self, p):
        self.seen.append(('rr', bytes(p.data), bytes(p.metadata or b'')))
        return create_response(b'R' + p.data, p.metadata)
    async def request_fire_and_forget(self, p): self.fnf.append((bytes(p.data), bytes(p.metadata or b'')))
    async def request_stream(self, p):
        self.seen.append(('rs', bytes(p.data), bytes(p.metadata or b'')))
        d = p.data
        def gen():
            yield Payload(b'1' + d, None), False
            yield Payload(b'2' + d, None), True
        return StreamFromGenerator(gen)

def e2e(k1: int, k2: int, l1: int, l2: int, frag: bool, c1: int, c2: int, c3: int, c4: int) -> bool:
    """
    pre: 0 <= k1 <= 2 and 0 <= k2 <= 2
    pre: 0 <= l1 <= 3 and 0 <= l2 <= 3
    pre: 0 <= c1 <= 3 and 0 <= c2 <= 3 and 0 <= c3 <= 3 and 0 <= c4 <= 3
    post: _
    """
    with VLoop() as loop:
        Clock.loop = loop
        c2s, s2c = Pipe(loop), Pipe(loop)
        fs = 64 if frag else None
        srv = RSocketServer(TransportTCP(c2s.reader, s2c), handler_factory=H, fragment_size_bytes=fs)
        async def prov():
            yield TransportTCP(s2c.reader, c2s)
        cli = RSocketClient(prov(), keep_alive_period=timedelta(seconds=1000), max_lifetime_period=timedelta(seconds=2000), fragment_size_bytes=fs)
        loop.create_task(cli.connect()); loop.run_ready()
        res = []
        for (k, l, tag) in ((k1, l1, 10), (k2, l2, 20)):
            p = pay(tag, l)
            if k == 0: res.append(('rr', cli.request_response(p), p))
            elif k == 1: cli.fire_and_forget(p); res.append(('fnf', None, p))
            else:
                sub = Rec(); sub.vals = []
                _on = sub.on_next
                def on_next(v, is_complete=False, sub=sub, _on=_on): sub.vals.append(bytes(v.data)); _on(v, is_complete)
                sub.on_next = on_next
                cli.request_stream(p).subscribe(sub); res.append(('rs', sub, p))
        loop.run_ready()
        # symbolic chunked delivery, then flush
        CH = (1, 3, 70, 10 ** 6)
        for c in (c1, c2):
            c2s.deliver(CH[c]); loop.run_ready()
        for c in (c3, c4):
            s2c.deliver(CH[c]); loop.run_ready()
        for _ in range(6):
            c2s.deliver(10 ** 6); loop.run_ready(); s2c.deliver(10 ** 6); loop.run_ready()
        h = srv._handler
        for kind, x, p in res:
            if kind == 'rr':
                if not x.done() or x.exception() is not None: return False
                r = x.result()
                if bytes(r.data) != b'R' + p.data or bytes(r.metadata or b'') != (p.metadata or b''): return False
            elif kind == 'fnf':
                if h.fnf.count((bytes(p.data), bytes(p.metadata or b''))) != 1: return False
            else:
                if x.vals != [b'1' + p.data, b'2' + p.data] or x.log != ['S', 'N', 'NC']: return False
        if len(cli._stream_control._streams) or len(srv._stream_control._streams): return False
        for ep in (cli, srv):
            for task in (ep._sender_task, ep._receiver_task):
                if task is None or task.done(): return False
        loop.create_task(cli.close()); loop.run_ready()
        return True
