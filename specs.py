"""Per-property check specifications: which conditions run in which tier, with which partitions / back ends."""
from vlib.engine import Cond, Script

COMMON_ASSUME = [
    'CPython 3.12 semantics as modelled by CrossHair 0.0.110 (+z3 4.x); verdicts hold inside the stated bounds only',
    'S1 logging disabled',
]
STUBVAL = Script('stub-validation', ['-m', 'vlib.validate_stubs'], timeout=300)


def spec(prop, tier, seed=0):
    fn = globals().get('spec_' + prop.lower())
    if fn is None:
        raise SystemExit('no check registered for ' + prop)
    s = fn(tier, seed)
    s.setdefault('assumptions', [])
    s['assumptions'] = COMMON_ASSUME + s['assumptions']
    return s


def spec_c13(tier, seed):
    q = tier == 'quick'
    def hp(w, ops, plen):
        out = []
        for parity in (0, 1):
            a = len([i for i in range(1, 2 ** w) if (i & 1) == parity]) + 3
            prefixes = [[]]
            for _ in range(plen):
                prefixes = [p + [x] for p in prefixes for x in range(a)]
            out += [{'w': w, 'ops': ops, 'parity': parity, 'prefix': p} for p in prefixes]
        return out
    hist_parts = (hp(2, 5, 1) + hp(3, 4, 1)) if q else (hp(2, 7, 2) + hp(3, 6, 2) + hp(4, 5, 2))
    return dict(
        conds=[
            Cond('c13_streamids', 'c_alloc_step', timeout=120),
            Cond('c13_streamids', 'w_alloc_wraps', timeout=60),
            Cond('c13_streamids', 'c_history_small', parts=hist_parts, timeout=300 if q else 900),
            Cond('c13_streamids', 'c_first_ids', timeout=120),
            Cond('c13_streamids', 'c_reject_live_id', timeout=300, parts=[{'k1': k} for k in range(3)]),
            Cond('c13_streamids', 'c_id_available_step', timeout=120),
        ],
        explanation='(a) one real StreamControl.allocate_stream from an arbitrary symbolic state (31-bit current id, '
                    '<=3 live ids at full width) equals the reference first-free-id-in-cyclic-order; (b) symbolic '
                    'histories of allocate/register/finish on a W-bit id space vs the reference allocator incl. the '
                    'failure condition; (c) real endpoints: first ids 1/2 and REJECTED on reuse of a live id with '
                    'symbolic 31-bit ids and 4 request types',
        bounds=['(a) |live ids| <= 3, ids and cursor full 31-bit', '(b) quick: W=2 with <=5 operations, W=3 with <=4; thorough: W=2/7 ops, W=3/6 ops, W=4/5 ops; both parities; partitioned by the first 1 (quick) / 2 (thorough) operations',
                '(c) one peer-opened and one own live stream, ids from {1,3,2^31-1,2,2^31-2}; availability check itself at full width on a symbolic table of <=3 ids'],
        outside=['exhaustion at full width (needs 2^30 live streams)', 'more than 3 live ids in the inductive step'],
        functions=['rsocket.stream_control.StreamControl.allocate_stream', 'rsocket.stream_control.StreamControl._increment_stream_id',
                   'rsocket.stream_control.StreamControl.register_stream', 'rsocket.stream_control.StreamControl.finish_stream',
                   'rsocket.stream_control.StreamControl.assert_stream_id_available',
                   'rsocket.rsocket_base.RSocketBase.handle_request_response', 'rsocket.rsocket_base.RSocketBase.handle_request_stream',
                   'rsocket.rsocket_base.RSocketBase.handle_request_channel', 'rsocket.rsocket_base.RSocketBase.handle_fire_and_forget',
                   'rsocket.rsocket_client.RSocketClient._get_first_stream_id', 'rsocket.rsocket_server.RSocketServer._get_first_stream_id'],
        stubs=['S1', 'S2', 'S3', 'S6', 'S7 SimTransport', 'S8 recording handler'],
        assumptions=['(c) frame-level SimTransport stands in for a real transport'],
    )
