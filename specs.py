"""Per-property check specifications: which conditions run in which tier, with which partitions / back ends."""
from vlib.engine import Cond, Script

COMMON_ASSUME = [
    'CPython 3.12 semantics as modelled by CrossHair 0.0.110 (+z3 4.x); verdicts hold inside the stated bounds only',
    'S1 logging disabled',
]
STUBVAL = Script('stub-validation', ['-m', 'vlib.validate_stubs'], timeout=300)
E2_HDR = Script('E2 header-parser agreement lemma (AST->SMT over 48 symbolic bits)', ['-m', 'vlib.e2_header'], timeout=300)


def spec(prop, tier, seed=0):
    fn = globals().get('spec_' + prop.lower())
    if fn is None:
        raise SystemExit('no check registered for ' + prop)
    s = fn(tier, seed)
    s.setdefault('assumptions', [])
    s['assumptions'] = COMMON_ASSUME + s['assumptions']
    return s


def spec_c13(tier, seed):
    q = tier == 'quick'
    def hp(w, ops, plen):
        out = []
        for parity in (0, 1):
            a = len([i for i in range(1, 2 ** w) if (i & 1) == parity]) + 3
            prefixes = [[]]
            for _ in range(plen):
                prefixes = [p + [x] for p in prefixes for x in range(a)]
            out += [{'w': w, 'ops': ops, 'parity': parity, 'prefix': p} for p in prefixes]
        return out
    hist_parts = (hp(2, 5, 1) + hp(3, 4, 1)) if q else (hp(2, 6, 2) + hp(3, 5, 2) + hp(4, 4, 2))
    return dict(
        conds=[
            Cond('c13_streamids', 'c_alloc_step', timeout=120),
            Cond('c13_streamids', 'w_alloc_wraps', timeout=60),
            Cond('c13_streamids', 'c_history_small', parts=hist_parts, timeout=300 if q else 900),
            Cond('c13_streamids', 'c_first_ids', timeout=120),
            Cond('c13_streamids', 'c_reject_live_id', timeout=300, parts=[{'k1': k} for k in range(3)]),
            Cond('c13_streamids', 'c_reject_live_id_fragmented', timeout=300),
            Cond('c13_streamids', 'c_id_available_step', timeout=120),
        ],
        explanation='(a) one real StreamControl.allocate_stream from an arbitrary symbolic state (31-bit current id, '
                    '<=3 live ids at full width) equals the reference first-free-id-in-cyclic-order; (b) symbolic '
                    'histories of allocate/register/finish on a W-bit id space vs the reference allocator incl. the '
                    'failure condition; (c) real endpoints: first ids 1/2 and REJECTED on reuse of a live id with '
                    'symbolic 31-bit ids and 4 request types',
        bounds=['(a) |live ids| <= 3, ids and cursor full 31-bit', '(b) quick: W=2 with <=5 operations, W=3 with <=4; thorough: W=2/6 ops, W=3/5 ops, W=4/4 ops; both parities; partitioned by the first 1 (quick) / 2 (thorough) operations',
                '(c) one peer-opened and one own live stream, ids from {1,3,2^31-1,2,2^31-2}; availability check itself at full width on a symbolic table of <=3 ids',
                '(c2) a request arriving in two fragments on id 2 or 4 with the receiver opening its own request (id 2) before / between / after the fragments; 4 request types'],
        outside=['exhaustion at full width (needs 2^30 live streams)', 'more than 3 live ids in the inductive step'],
        functions=['rsocket.stream_control.StreamControl.allocate_stream', 'rsocket.stream_control.StreamControl._increment_stream_id',
                   'rsocket.stream_control.StreamControl.register_stream', 'rsocket.stream_control.StreamControl.finish_stream',
                   'rsocket.stream_control.StreamControl.assert_stream_id_available',
                   'rsocket.rsocket_base.RSocketBase.handle_request_response', 'rsocket.rsocket_base.RSocketBase.handle_request_stream',
                   'rsocket.rsocket_base.RSocketBase.handle_request_channel', 'rsocket.rsocket_base.RSocketBase.handle_fire_and_forget',
                   'rsocket.rsocket_client.RSocketClient._get_first_stream_id', 'rsocket.rsocket_server.RSocketServer._get_first_stream_id'],
        stubs=['S1', 'S2', 'S3', 'S6', 'S7 SimTransport', 'S8 recording handler'],
        assumptions=['(c) frame-level SimTransport stands in for a real transport'],
    )


def spec_c03(tier, seed):
    q = tier == 'quick'
    fmax = 100000 if q else 16777215
    tuples = [(0, 0), (1, 1), (55, 0), (56, 0), (0, 55), (0, 56), (30, 55), (100, 60)]
    if not q:
        tuples += [(51, 0), (52, 0), (0, 51), (0, 52), (54, 1), (110, 0), (0, 110), (58, 55), (200, 130), (1, 120)]
    classes_b = (0, 4) if q else (0, 1, 2, 3, 4)
    bparts = [{'cls': c, 'dlen': d, 'mlen': m, 'fsize': 64, 'lenhdr': lh, 'spans': False}
              for c in classes_b for (d, m) in tuples for lh in (True, False)]
    if not q:
        bparts += [{'cls': c, 'dlen': d, 'mlen': m, 'fsize': 97, 'lenhdr': True, 'spans': False}
                   for c in (0, 3) for (d, m) in ((88, 0), (89, 0), (0, 88), (40, 88), (300, 100))]
    return dict(
        conds=[
            Cond('c03_fragments', 'c_span_pipeline', parts=[{'cls': c, 'fmax': fmax} for c in range(5)],
                 timeout=400 if q else 1200),
            Cond('c03_fragments', 'w_three_fragments_meta_boundary', parts=[{'fmax': fmax}], timeout=120),
            Cond('c03_fragments', 'c_bytes_pipeline', parts=bparts, timeout=200),
            Cond('c03_fragments', 'c_no_fragment_size', parts=[{'cls': c} for c in range(5)], timeout=120),
            Cond('c03_fragments', 'c_min_fragment_size', timeout=60),
        ],
        explanation='real FrameFragmenter / get_next_fragment / new_frame_fragment / serialize_frame_prefix / '
                    'FrameFragmentCache executed symbolically with data length, metadata length, fragment size, framing '
                    'mode, complete flag and request-n as solver variables (payload content as opaque spans whose merge '
                    'fails unless contiguous); per-fragment size/flag/order assertions and exact reassembly; tied to real '
                    'bytes by a second condition on symbolic byte content at boundary length tuples through '
                    'serialize -> parse_or_ignore -> cache',
        bounds=['fragment size in [64, %d]' % fmax, 'data and metadata length each in [0, 2*size+4] (0..3+ fragments each)',
                'both framing modes, all five fragmentable frame classes, request-n in [1, 2^31-1]',
                'bytes tie: %d (class, dlen, mlen, size, framing) tuples with symbolic content' % len(bparts)],
        outside=['payloads longer than 2*size+4 (only repeat the middle-fragment case)', 'fragment sizes above the bound'],
        functions=['rsocket.frame_fragmenter.FrameFragmenter.__iter__', 'rsocket.frame_fragmenter.FrameFragmenter.__init__',
                   'rsocket.frame_fragmenter.data_to_fragments_if_required', 'rsocket.frame.FrameFragmentMixin.get_next_fragment',
                   'rsocket.frame.new_frame_fragment', 'rsocket.frame.Frame.serialize_frame_prefix',
                   'rsocket.frame.Frame.compute_frame_length', 'rsocket.frame_fragment_cache.FrameFragmentCache.append',
                   'rsocket.frame_fragment_cache.FrameFragmentCache._frame_fragment_builder',
                   'rsocket.frame_fragment_cache.FrameFragmentCache._merge_frame_content_inplace',
                   'rsocket.rsocket_base.RSocketBase._assert_valid_fragment_size', 'rsocket.frame.parse_or_ignore',
                   'rsocket.frame.serialize_with_frame_size_header'],
        stubs=['S1', 'S2', 'S3', 'S4 (BytesIO -> pure-Python reader; span reader for spans)', 'Span stand-in for payload content'],
        assumptions=['the fragmenter, length computation and cache only take len(), slice and concatenate payload content '
                     '(span stand-in); checked against real bytes by c_bytes_pipeline and by every replay'],
    )


def _c02_parts(q):
    dm = [(0, 0), (1, 0), (0, 1), (3, 2)] if q else [(a, b) for a in (0, 1, 3) for b in (0, 1, 3)] + [(17, 9)]
    parts = []
    for ft in (4, 5, 6, 7, 10):
        parts += [{'ft': ft, 'lens': [d, m, 0, 0, 0]} for d, m in dm]
    setup = [(0, 0, 0, 0, 0), (1, 1, 2, 1, 3), (3, 0, 0, 127, 16)]
    if not q:
        setup += [(2, 3, 3, 127, 127), (0, 2, 1, 0, 127), (1, 0, 3, 16, 0), (0, 3, 0, 1, 1)]
    parts += [{'ft': 1, 'lens': list(t)} for t in setup]
    parts += [{'ft': 2, 'lens': [0, m, 0, 0, 0]} for m in ((0, 2) if q else (0, 1, 2, 5))]
    parts += [{'ft': 3, 'lens': [d, 0, 0, 0, 0]} for d in ((0, 3) if q else (0, 1, 3, 8))]
    parts += [{'ft': 11, 'lens': [d, 0, 0, 0, 0]} for d in ((0, 3) if q else (0, 1, 3, 8))]
    parts += [{'ft': 12, 'lens': [0, m, 0, 0, 0]} for m in ((0, 3) if q else (0, 1, 3, 8))]
    parts += [{'ft': 13, 'lens': [0, 0, t, 0, 0], 'h1': h} for t in ((0, 3) if q else (0, 1, 3, 8)) for h in range(4)]
    parts += [{'ft': ft, 'lens': [0, 0, 0, 0, 0]} for ft in (8, 9, 14)]
    return parts


def spec_c02(tier, seed):
    q = tier == 'quick'
    parts = _c02_parts(q)
    be = ('native', 'model')
    return dict(
        conds=[
            STUBVAL,
            E2_HDR,
            Cond('c02_codec', 'c_roundtrip', parts=parts, backends=be, timeout=300),
            Cond('c02_codec', 'c_bits24', backends=be, timeout=120),
            Cond('c02_codec', 'c_pack_position', backends=be, timeout=120),
            Cond('c02_codec', 'c_unpack_position', backends=be, timeout=120),
            Cond('c02_codec', 'c_parse_type', backends=be, timeout=120),
        ],
        explanation='for each of the 14 frame classes and both bit-helper back ends (struct-based, and cbitstruct through its '
                    'validated pure-Python model S5): real Frame.serialize == reference RSocket-1.0 encoding; '
                    'parse_or_ignore(bytes) has every field equal (payload with content carries NEXT); re-encoding is '
                    'byte-identical; TransportTCP.serialize_partial writes exactly serialize_with_frame_size_header(frame) '
                    'with a correct 3-byte length. All numeric fields, flags and byte contents are solver variables; '
                    'byte-string lengths are fixed per process.',
        bounds=['stream id 31 bit, request-n/keep-alive 32 bit, LEASE ttl/count 31 bit, every flag, 11 error codes', 'positions inside frames: high word in {0,1,0x12345678,2^31-1} x symbolic low word; full 63-bit range by the pack/unpack lemmas',
                'byte-string lengths from fixed tuples per type (data/metadata 0..3 (thorough ..17), token 0..3, MIME names 0..127); contents symbolic',
                '%d (type, lengths) partitions x 2 back ends' % len(parts)],
        outside=['frames with the reserved stream-id bit set, EXT frames, KEEPALIVE with metadata (never produced)',
                 'content lengths other than the listed tuples (length arithmetic: C03 and c_bits24 over the full 24-bit range)'],
        functions=['rsocket.frame.Frame.serialize', 'rsocket.frame.Frame.serialize_frame_prefix', 'rsocket.frame.parse_or_ignore',
                   'rsocket.frame.parse_header_native', 'rsocket.frame.Frame.parse_metadata', 'rsocket.frame.Frame.parse_data',
                   'rsocket.frame.SetupFrame.parse', 'rsocket.frame.SetupFrame.serialize_frame_prefix',
                   'rsocket.frame.LeaseFrame.parse', 'rsocket.frame.KeepAliveFrame.parse', 'rsocket.frame.RequestStreamFrame.parse',
                   'rsocket.frame.RequestChannelFrame.parse', 'rsocket.frame.RequestNFrame.parse', 'rsocket.frame.PayloadFrame.parse',
                   'rsocket.frame.PayloadFrame.serialize_frame_prefix', 'rsocket.frame.ErrorFrame.parse',
                   'rsocket.frame.MetadataPushFrame.parse', 'rsocket.frame.ResumeFrame.parse', 'rsocket.frame.ResumeOKFrame.parse',
                   'rsocket.frame.serialize_with_frame_size_header', 'rsocket.frame.serialize_prefix_with_frame_size_header',
                   'rsocket.frame.Frame.write_data_metadata', 'rsocket.transports.tcp.TransportTCP.serialize_partial',
                   'rsocket.frame_helpers.pack_string', 'rsocket.frame_helpers.unpack_string',
                   'rsocket.frame_helpers.unpack_32bit'],
        stubs=['S1', 'S2', 'S3', 'S5 (cbitstruct model, validated against the compiled extension in this run)'],
        assumptions=['the claim for the cbitstruct back end is modulo its model S5 (translation-validated every run)',
                     'reference encoder in the harness written from the RSocket 1.0 frame layouts'],
        technique_extra='; stub translation validation by differential execution',
    )


def _harness_eval(expr, module):
    """evaluate a small expression inside a harness module in a subprocess (keeps shims out of the driver)"""
    import json as _j
    import subprocess as _sp
    from vlib import engine as _e
    _e.ensure_venv()
    code = 'import json, %s as h; print(json.dumps(%s))' % (module, expr)
    out = _sp.check_output([_e.VENV_PY, '-c', code], env=_e._env({}, 'native'), cwd=_e.ROOT, text=True)
    return _j.loads(out.strip().split('\n')[-1])


def spec_c04(tier, seed):
    q = tier == 'quick'
    lim = 9 if q else 12
    pairs = [{'lb': a, 'lc': b} for a in range(0, lim + 1) for b in range(0, lim + 1 - a)]
    lens = _harness_eval('[len(s) for s in h.STREAMS]', 'harness.c04_chunking')
    ns = len(lens)
    lim3 = 8 if q else 10
    triples = [{'la': a, 'lb': b, 'lc': c} for a in range(1, lim3) for b in range(1, lim3) for c in range(1, lim3) if a + b + c <= lim3 and a + b >= 4]
    conds = [
        Cond('c04_chunking', 'c_delimit_step', parts=pairs, timeout=300 if q else 600),
        Cond('c04_chunking', 'c_delimit_three', parts=triples, timeout=300 if q else 600),
        Cond('c04_chunking', 'c_cut_once', parts=[{'stream': i} for i in range(ns)], timeout=300),
        Cond('c04_chunking', 'c_read_sizes', parts=[{'stream': i} for i in range(ns)], timeout=200),
        Cond('c04_chunking', 'c_message', parts=[{'lm': n} for n in range(0, 13 if q else 17)], timeout=120),
        Cond('c04_chunking', 'c_message_real', timeout=120),
        Cond('c04_chunking', 'w_streams_interesting', timeout=60),
    ]
    if not q:
        twice = [{'stream': i, 'c1': c} for i in range(ns) for c in range(0, lens[i] + 1, 3)]
        conds.append(Cond('c04_chunking', 'c_cut_twice', parts=twice, timeout=300))
    return dict(
        conds=conds,
        explanation='L1 (inductive step): real FrameParser.receive_data on an arbitrary residual buffer followed by an '
                    'arbitrary chunk (symbolic contents, one process per length pair) equals the reference delimiter on the '
                    'concatenation, incl. residual and the InvalidFrame path - by induction over reads this is chunking '
                    'independence for any number of reads. L2: concrete streams of valid/malformed/fragmented frames cut '
                    'at symbolic offsets (one, or two with the first fixed per process) and at read sizes 1..7 through the '
                    'real TransportTCP + StreamReader + parse_or_ignore equal the one-shot decode. Message mode: one '
                    'message in, exactly that frame (or one invalid marker) out, terminates, buffer empty.',
        bounds=['L1: len(buffer)+len(chunk) <= %d, all length pairs, contents symbolic; three reads with total <= %d (first two together >= 4 bytes)' % (lim, lim3),
                'L2: 5 concrete streams (%s bytes), every single cut%s, read sizes 1..7' % (lens, '' if q else ', second cut symbolic for every third first cut'),
                'messages of 0..%d bytes with symbolic content' % (12 if q else 16)],
        outside=['L1 uses a recording stand-in for parse_or_ignore (delimiting never looks inside a frame); frames longer than the bound',
                 'three or more simultaneous symbolic cuts (follow from L1 by induction)'],
        functions=['rsocket.frame_parser.FrameParser.receive_data', 'rsocket.frame.parse_or_ignore',
                   'rsocket.transports.tcp.TransportTCP.next_frame_generator'],
        stubs=['S1', 'S2', 'S3', 'recording parse_or_ignore stand-in (L1 and message lemma only)', 'real asyncio.StreamReader on VLoop'],
    )


def spec_c18(tier, seed):
    q = tier == 'quick'
    be = ('native', 'model')
    kinds = list(range(8))
    combos = [[a] for a in kinds] + [[a, b] for a in kinds for b in kinds]
    if not q:
        combos += [[a, b, c] for a in kinds for b in kinds for c in kinds]
    cparts = [{'kinds': k, 'clen': 2, 'namelen': 3} for k in combos]
    cparts += [{'kinds': [1, 6], 'clen': c, 'namelen': n} for c, n in ((0, 1), (1, 128), (5, 127))]
    nlens = [1, 2, 16, 31, 32, 127, 128, 129, 200] if q else [1, 2, 3, 9, 10, 15, 16, 24, 31, 32, 33, 38, 64, 127, 128, 129, 130, 200, 256]
    tl = [[1, 0, 2], [255, 1, 0], [0, 0, 0]] + ([] if q else [[3, 255, 255], [2, 2, 2], [254, 0, 1]])
    al = [[0, 0], [2, 3], [1, 0], [0, 4]] + ([] if q else [[300, 2], [5, 5], [255, 256]])
    return dict(
        conds=[
            STUBVAL,
            Cond('c18_metadata', 'c_custom_mime_header', parts=[{'nlen': n} for n in nlens], backends=be, timeout=200),
            Cond('c18_metadata', 'c_mime_length_boundary', timeout=300),
            Cond('c18_metadata', 'c_well_known_header', backends=be, timeout=200),
            Cond('c18_metadata', 'c_tables_bijective', timeout=200),
            Cond('c18_metadata', 'c_tags', parts=[{'tlens': t, 'via_helper': h} for t in tl for h in (True, False)], timeout=200),
            Cond('c18_metadata', 'c_tag_length_boundary', timeout=200),
            Cond('c18_metadata', 'c_auth', parts=[{'alens': a} for a in al], backends=be, timeout=200),
            Cond('c18_metadata', 'c_composite', parts=cparts, backends=be, timeout=200),
            Cond('c18_metadata', 'c_entry_length_field', backends=be, timeout=600),
        ],
        explanation='real CompositeMetadata.parse/serialize, item classes, tagging/routing, authentication, stream data '
                    'MIME type(s), serialize_well_known_encoding / parse_well_known_encoding / serialize_128max_value / '
                    'parse_type and the helper constructors, executed symbolically: contents of names, tags, credentials, '
                    'tokens and entry bodies are solver variables (lengths fixed per process, boundaries 1/128/129 and '
                    '255/256 reached through symbolic-LENGTH conditions), well-known ids symbolic over the whole id byte; '
                    'value->bytes->value, bytes->value->bytes, reference byte layout, table bijection, rejection of '
                    'over-long names/tags; both back ends',
        bounds=['lists of 1..%d entries over 8 entry kinds (all ordered combinations)' % (2 if q else 3),
                'custom MIME names of %s bytes with symbolic content; symbolic length 1..300 for the limit' % nlens,
                'tags: up to 3 per list with lengths from %s; symbolic length 250..260 for the limit' % tl,
                'credentials/tokens lengths %s; entry body symbolic length 0..300 and 65530..65540' % al],
        outside=['entries >= 2^24 bytes, user names >= 2^16 bytes, the empty custom MIME name, the two ..._DO_NOT_USE pseudo MIME names'],
        functions=['rsocket.extensions.composite_metadata.CompositeMetadata.parse', 'rsocket.extensions.composite_metadata.CompositeMetadata.serialize',
                   'rsocket.extensions.composite_metadata_item.CompositeMetadataItem.serialize', 'rsocket.extensions.tagging.TaggingMetadata._serialize_tags',
                   'rsocket.extensions.tagging.TaggingMetadata.parse', 'rsocket.extensions.authentication.AuthenticationSimple.serialize',
                   'rsocket.extensions.authentication.AuthenticationSimple.parse', 'rsocket.extensions.authentication_content.AuthenticationContent.serialize',
                   'rsocket.extensions.authentication_content.AuthenticationContent.parse', 'rsocket.extensions.stream_data_mimetype.StreamDataMimetype.parse',
                   'rsocket.extensions.stream_data_mimetype.StreamDataMimetypes.parse', 'rsocket.helpers.serialize_well_known_encoding',
                   'rsocket.helpers.parse_well_known_encoding', 'rsocket.frame_helpers.serialize_128max_value',
                   'rsocket.extensions.mimetypes.WellKnownMimeTypes.require_by_id', 'rsocket.extensions.mimetypes.WellKnownMimeTypes.get_by_name',
                   'rsocket.extensions.authentication_types.WellKnownAuthenticationTypes.require_by_id',
                   'rsocket.extensions.helpers.composite', 'rsocket.extensions.helpers.route', 'rsocket.extensions.helpers.metadata_item'],
        stubs=['S1', 'S2', 'S3', 'S5 (validated)'],
        technique_extra='; stub translation validation by differential execution',
    )


E2_MS = Script('E2 to_milliseconds (AST->SMT, exact binary64 RNE in integers)', ['-m', 'vlib.e2_to_ms'], timeout=900)


def spec_c16(tier, seed):
    q = tier == 'quick'
    pairs = [[1, 5], [0, 7], [4, 2], [3, 9], [6, 8], [7, 0]] if q else [[a, b] for a in range(10) for b in range(10) if a != b][::3]
    return dict(
        conds=[
            E2_MS,
            Cond('c16_setup', 'c_setup_content', parts=[{'pair': p, 'elen': 3, 'plen': [1, 1]} for p in pairs]
                 + [{'pair': [1, 5], 'elen': e, 'plen': pl} for e, pl in ((0, [0, 0]), (4, [3, 3]))], timeout=400),
            Cond('c16_setup', 'c_setup_first', parts=[{'kind': k, 'leasepub': 0} for k in range(5)] + [{'kind': k, 'leasepub': lp} for lp in (1, 2) for k in ((0, 4) if q else range(5))], timeout=400),
            Cond('c16_setup', 'c_server_setup', parts=[{'elen': 3, 'plen': [1, 1]}, {'elen': 0, 'plen': [0, 2]}], timeout=400),
        ],
        explanation='(E2) the current source of to_milliseconds is translated from its AST into integer formulas with an exact '
                    'encoding of binary64 round-to-nearest-even; z3 shows for every whole-millisecond period up to 2^31-1 ms that '
                    'the result is exactly that many ms and for every microsecond-valued period that it is a nearest ms. '
                    '(E1) a real RSocketClient on the virtual loop: the first frame is a SETUP whose decoded fields equal the '
                    'configuration (encodings with symbolic bytes, lease flag, payload, period pairs); SETUP stays first and '
                    'single when a request of 5 kinds is issued before/while/after a connect() that suspends for a symbolic '
                    'time (keep-alive ticks inside); a real RSocketServer answers every symbolic SETUP/RESUME with on_setup '
                    'once or the matching ERROR code on stream 0 and keeps serving.',
        bounds=['E2: periods 0..2^31-1 ms incl. every sub-millisecond part (full range, no sampling)',
                'E1 content: %d period pairs from 10 representative periods, encodings: 4 well-known + custom bytes of length 0/3/4 symbolic, payload lengths 0..3' % len(pairs),
                'E1 order: connect suspended 0..2500 ms (symbolic), request at 4 moments x 5 kinds, 0..2 s afterwards',
                'E1 server: all flag/version/period/token/encoding values of SETUP (symbolic), RESUME'],
        outside=['periods >= 2^31 ms (do not fit the wire field)', 'symbolic timedelta inside the endpoint (engine returned a non-reproducing counterexample; replaced by E2 + representatives)'],
        functions=['rsocket.datetime_helpers.to_milliseconds', 'rsocket.frame_builders.to_setup_frame', 'rsocket.rsocket_base.RSocketBase._create_setup_frame',
                   'rsocket.rsocket_base.RSocketBase.connect', 'rsocket.rsocket_client.RSocketClient.connect', 'rsocket.rsocket_client.RSocketClient._connect_new_transport',
                   'rsocket.rsocket_base.RSocketBase.send_priority_frame', 'rsocket.rsocket_base.RSocketBase.handle_setup', 'rsocket.rsocket_base.RSocketBase.handle_resume',
                   'rsocket.rsocket_base.RSocketBase._receiver_listen', 'rsocket.rsocket_base.RSocketBase._sender', 'rsocket.extensions.mimetypes.ensure_encoding_name'],
        stubs=['S1', 'S2', 'S3', 'S6', 'S7 SimTransport (connect() suspends on demand)', 'S8'],
        technique_extra='; E2: AST->SMT translation with exact integer encoding of IEEE-754 binary64 RNE (z3), translator validated against the real function on 124 vectors per run',
    )


def spec_c14(tier, seed):
    q = tier == 'quick'
    rot = [[0, 1, 2, 3], [3, 0, 1, 2], [2, 3, 0, 1], [1, 2, 3, 0]]
    parts = []
    for nb in (0, 1, 2, 3):
        for na in (0, 1, 2):
            for qs in (0, 1, 2):
                for second in (False, True):
                    for frag in (False, True):
                        for ri, kinds in enumerate(rot):
                            p = {'nb': nb, 'na': na, 'qsize': qs, 'second': second, 'frag': frag, 'kinds': kinds}
                            if q:
                                # quick: one rotation per combination, fragmentation only with the unbounded queue
                                if ri != (nb + na + qs) % 4 or (frag and qs != 0) or (nb == 3 and na == 2):
                                    continue
                            parts.append(p)
    return dict(
        conds=[
            E2_MS,
            Cond('c14_lease', 'c_requester', parts=parts, timeout=300),
            Cond('c14_lease', 'c_responder', timeout=300),
        ],
        explanation='a real lease-honouring RSocketClient on the virtual-time loop: NB requests before the first LEASE, '
                    'LEASE(count, ttl) with 31-bit symbolic count and ttl, symbolic time advance, NA more requests, optional '
                    'second LEASE, more time, one more request; wire monitor with virtual timestamps (nothing before the first '
                    'lease, <= count per lease, none at/after arrival+ttl, FIFO release up to the queue size, each request at most '
                    'once). Responder: every published DefinedLease(count, ttl) yields one LEASE frame with that count and ttl in '
                    'ms (ms arithmetic by E2 over the full range).',
        bounds=['requests before the lease 0..3, after 0..2 (+1 after a second lease); queue size 0 (unbounded), 1, 2; with/without fragmentation; 4 rotations of the 4 request types',
                'lease count, second count: 0..2^31-1; ttl 0..2^31-1 ms; each time advance 0..10^12 us (11.5 days), all symbolic',
                '%d partitions' % len(parts)],
        outside=['more than two leases, more than 6 requests; time advances beyond 23 days (keep-alive machinery of the client would interfere)'],
        functions=['rsocket.rsocket_base.RSocketBase.send_request', 'rsocket.rsocket_base.RSocketBase._is_frame_allowed_to_send',
                   'rsocket.rsocket_base.RSocketBase._queue_request_frame', 'rsocket.rsocket_base.RSocketBase.handle_lease',
                   'rsocket.lease.DefinedLease._is_request_allowed', 'rsocket.lease.DefinedLease.to_frame',
                   'rsocket.rsocket_base.RSocketBase.request_response', 'rsocket.rsocket_base.RSocketBase.request_stream',
                   'rsocket.rsocket_base.RSocketBase.request_channel', 'rsocket.rsocket_base.RSocketBase.fire_and_forget',
                   'rsocket.rsocket_base.RSocketBase._subscribe_to_lease_publisher', 'rsocket.rsocket_base.RSocketBase.send_lease',
                   'rsocket.frame.LeaseFrame.parse', 'rsocket.datetime_helpers.to_milliseconds'],
        stubs=['S1', 'S2', 'S3', 'S6 (integer-microsecond clock and durations: VTime/VDelta)', 'S7 SimTransport', 'S8'],
        assumptions=['wall clock and loop clock advance together (S6)'],
        technique_extra='; E2 (AST->SMT, exact binary64) for the ttl millisecond arithmetic',
    )


def spec_c15(tier, seed):
    q = tier == 'quick'
    ps = [500000, 100000, 1500000] if q else [1000, 100000, 250000, 500000, 999999, 1000000, 1500000, 60000000, 600000000]
    ls = [300000, 3000000] if q else [1000, 300000, 1500000, 3000000, 600000000]
    gaps = (0, 1, 2) if q else (0, 1, 2, 3)
    return dict(
        conds=[
            Cond('c15_keepalive', 'c_echo', parts=[{'role': r, 'dlen': d} for r in ('client', 'server') for d in (0, 2, 3)], timeout=300),
            Cond('c15_keepalive', 'c_periodic', parts=[{'p_us': p} for p in ps], timeout=300),
            Cond('c15_keepalive', 'c_periodic_with_acks', parts=[{'p_us': p} for p in ps[:2 if q else 5]], timeout=300 if q else 900),
            Cond('c15_keepalive', 'c_timeout', parts=[{'l_us': l, 'ngaps': g} for l in ls for g in gaps], timeout=600 if q else 1800),
        ],
        explanation='real endpoints on the virtual-time loop. Echo: symbolic respond flag, 63-bit position, data content, both '
                    'roles. Periodic emission: symbolic elapsed time T <= 9.5 P, every KEEPALIVE time-stamped by the virtual clock '
                    'must be at k*P with the respond flag, none other, none after close; the same with two server KEEPALIVEs arriving at symbolic instants within 3.5 P (c_periodic_with_acks). Time-out: symbolic acknowledgement gaps '
                    'in [0, 2.5 L] and symbolic silence in [0, 3.5 L]; no false time-out while gaps <= L, detection by 2 L.',
        bounds=['keep-alive periods P in %s us, lifetimes L in %s us (configuration values; they enter asyncio.sleep as floats)' % (ps, ls),
                'T in [0, 9.5 P]; up to %d acknowledgements with gaps in [0, 2.5 L]; silence in [0, 3.5 L] - all symbolic integers (us)' % max(gaps),
                'echo: data 0/2/3 bytes symbolic, position high word from 4 representatives x symbolic low word'],
        outside=['clock skew between wall clock and loop clock', 'more than %d acknowledgements' % max(gaps), 'P and L outside the configuration sets'],
        functions=['rsocket.rsocket_base.RSocketBase.handle_keep_alive', 'rsocket.rsocket_client.RSocketClient._keepalive_send_task',
                   'rsocket.rsocket_client.RSocketClient._keepalive_timeout_task', 'rsocket.rsocket_client.RSocketClient._update_last_keepalive',
                   'rsocket.rsocket_client.RSocketClient._before_sender', 'rsocket.rsocket_client.RSocketClient._receiver_listen',
                   'rsocket.rsocket_base.RSocketBase._send_new_keepalive', 'rsocket.frame_builders.to_keepalive_frame', 'rsocket.frame.KeepAliveFrame.parse'],
        stubs=['S1', 'S2', 'S3', 'S6 (integer-microsecond clock)', 'S7 SimTransport', 'S8'],
        assumptions=['wall clock and loop clock advance together (S6)'],
    )


def spec_c05(tier, seed):
    q = tier == 'quick'
    parts = []
    for s1 in (True, False):
        for v1 in range(15):
            if q:
                parts.append({'s1': s1, 'v1': v1, 'moments': 2, 'third': 0, 'lenhdr': (v1 % 2 == 0)})
                if s1 and v1 in (3, 7):
                    parts.append({'s1': s1, 'v1': v1, 'moments': 2, 'third': 1, 'lenhdr': False})
                    parts.append({'s1': s1, 'v1': v1, 'moments': 2, 'third': 2, 'lenhdr': True})
                if s1 and v1 in (11, 13):
                    parts.append({'s1': s1, 'v1': v1, 'moments': 2, 'third': 3, 'lenhdr': False})
            else:
                # (thorough run #2: 168 partitions at up to 1180 s each took 91 min; one framing per third-source kind)
                for third, lh in ((0, v1 % 2 == 0), (1, False), (2, True)) + (((3, False),) if v1 >= 10 and s1 else ()):
                    parts.append({'s1': s1, 'v1': v1, 'moments': 3, 'third': third, 'lenhdr': lh})
    return dict(
        conds=[Cond('c05_wire_order', 'c_wire_order', parts=parts, timeout=600 if q else 1800)],
        explanation='a real RSocketServer (fragment size 64) with the real sender task on a transport whose send_frame blocks '
                    'until the harness releases it; two free frame sources (stream 1|3 x 15 variants: payload / payload+complete '
                    'of 1..4 fragments, complete, error (application exception / protocol error), cancel, request-n) plus an optional third are queued through the '
                    'socket API before the sender starts or after the j-th emitted frame; the emitted wire sequence is fed to '
                    'a receiver-side FrameFragmentCache: per-stream order = queue order, no same-stream frame between '
                    'fragments, every payload reassembles to the original bytes',
        bounds=['2 free sources + third in {none, 2-fragment payload on stream 3, COMPLETE on stream 1, inbound respond-flagged KEEPALIVE}', 'queuing moments 0..%d emitted frames' % (2 if q else 3),
                '2 streams, <= 4 fragments per payload, fragment size 64, both framings', '%d partitions' % len(parts)],
        outside=['more than 3 queued sources, more than 2 streams, other fragment sizes (C03 covers the fragmenter for all sizes)'],
        functions=['rsocket.rsocket_base.RSocketBase._get_next_frame_to_send', 'rsocket.rsocket_base.RSocketBase._cycle_fragmented_frame_source',
                   'rsocket.rsocket_base.RSocketBase._sender', 'rsocket.rsocket_base.RSocketBase.send_frame', 'rsocket.rsocket_base.RSocketBase.send_payload',
                   'rsocket.rsocket_base.RSocketBase.send_error', 'rsocket.rsocket_base.RSocketBase.send_complete', 'rsocket.queue_peekable.QueuePeekable.peek',
                   'rsocket.frame.FrameFragmentMixin.get_next_fragment', 'rsocket.frame_fragment_cache.FrameFragmentCache.append'],
        stubs=['S1', 'S2', 'S3', 'S4', 'S7 SimTransport with blocking send', 'VLoop'],
    )


def spec_c06(tier, seed):
    q = tier == 'quick'
    ms = (0, 1, 2, 3) if q else (0, 1, 2, 3, 4, 5, 6)
    srcs = ('gen', 'agen', 'rx4', 'rx4bp', 'rx3', 'rx3bp')
    rparts = []
    for src in srcs:
        for role in ('stream', 'chan'):
            for m in ms:
                for col in ((False, True) if src in ('gen', 'agen') else (False,)):
                    if q and role == 'chan' and m in (0, 2):
                        continue
                    rparts.append({'src': src, 'role': role, 'm': m, 'col': col})
    cparts = [{'src': src, 'm': m, 'col': False} for src in srcs for m in ((1, 3) if q else ms)]
    gparts = []
    for src in srcs:
        for role in ('stream', 'chan'):
            for m, ng in (((4, 6),) if q else ((4, 6), (8, 6), (3, 10))):
                for burst in (True, False):
                    if q and ((role == 'chan' and src in ('gen', 'rx4', 'rx3')) or (not burst and (src, role) != ('rx4bp', 'stream'))):
                        continue
                    gparts.append({'src': src, 'role': role, 'm': m, 'ng': ng, 'col': False, 'burst': burst})
    return dict(
        conds=[
            Cond('c06_credit', 'c_responder_credit', parts=rparts, timeout=400),
            Cond('c06_credit', 'c_grant_sequence', parts=gparts, timeout=400),
            Cond('c06_credit', 'c_channel_requester_credit', parts=cparts, timeout=400),
            Cond('c06_credit', 'c_forwarding', timeout=300),
            # the credit a responder works with is the initial_request_n of the REASSEMBLED request: the endpoint harnesses
            # above feed unfragmented requests, so that a REQUEST_STREAM / REQUEST_CHANNEL which arrives in fragments keeps
            # its initial_request_n (symbolic, full width) is this lemma of C03, which C06 therefore depends on (seed C06-4)
            Cond('c03_fragments', 'c_span_pipeline', parts=[{'cls': c, 'fmax': 100000 if q else 16777215} for c in (3, 4)],
                 timeout=400 if q else 1200),
        ],
        explanation='real responder endpoints (request-stream and request-channel) and a real channel requester over each of '
                    'the library stream sources (generator, async generator, reactivex / Rx plain observable, reactivex / Rx '
                    'back-pressure factory) holding M elements; initial request-n and two REQUEST_N values are 31-bit solver '
                    'variables delivered early / late / back-to-back; at every quiescent point the number of PAYLOAD(next) '
                    'frames on the wire must EQUAL min(M, credit granted so far), in order, completion only after the last '
                    'element; a back-pressure factory must be asked for exactly the credited amounts; credit granted by the '
                    'application (initial_request_n, Subscription.request) appears on the wire with exactly that value',
        bounds=['M in %s elements; 3 credit values each in [1, 2^31-1] (symbolic)' % (list(ms),),
                'REQUEST_N delivery: same read as the request / after quiescence / two back to back',
                'c_grant_sequence: 6 (thorough also 10) REQUEST_N frames of one symbolic value g, all pending together (burst) or one per quiescent point, M = 4 (thorough also 8, 3)',
                '6 stream sources x {stream responder, channel responder, channel requester}; complete-on-last or separate completion for generator sources',
                'fragmented REQUEST_STREAM / REQUEST_CHANNEL: initial_request_n preserved by fragmentation and reassembly for all lengths in [0, 2*size+4] and fragment sizes 64..1e5 (quick) / 2^24-1 (thorough) (c03_fragments.c_span_pipeline, cls 3 and 4)'],
        outside=['more than 3 independent credit values, more than 10 REQUEST_N frames, more than %d elements, publishers written by applications' % max(max(ms), 8)],
        functions=['rsocket.streams.stream_from_generator.StreamFromGenerator.request', 'rsocket.streams.stream_from_generator.StreamFromGenerator.queue_next_n',
                   'rsocket.streams.stream_from_generator.StreamFromGenerator._generate_next_n', 'rsocket.streams.stream_from_generator.StreamFromGenerator.feed_subscriber',
                   'rsocket.streams.stream_from_async_generator.StreamFromAsyncGenerator._generate_next_n',
                   'rsocket.reactivex.back_pressure_publisher.InternalBackPressurePublisher.request', 'rsocket.reactivex.back_pressure_publisher.from_async_event_iterator',
                   'rsocket.reactivex.back_pressure_publisher.observable_from_async_generator', 'rsocket.rx_support.back_pressure_publisher.from_async_event_iterator',
                   'rsocket.rx_support.back_pressure_publisher.observable_from_async_generator',
                   'rsocket.handlers.request_stream_responder.RequestStreamResponder.frame_received', 'rsocket.handlers.request_cahnnel_common.RequestChannelCommon.frame_received',
                   'rsocket.handlers.request_cahnnel_responder.RequestChannelResponder.frame_received', 'rsocket.streams.stream_handler.StreamHandler.send_request_n',
                   'rsocket.streams.stream_handler.StreamHandler.initial_request_n', 'rsocket.async_helpers.async_range'],
        stubs=['S1', 'S2', 'S3', 'S6', 'S7 SimTransport', 'S8', 'reactivex / Rx libraries executed under the tracer'],
    )


_ALPHA_N = {'rr_req': 4, 'rs_req': 5, 'ch_req': 9, 'rr_resp': 4, 'rs_resp': 5, 'ch_resp': 8}
_HIST_FUNCS = ['rsocket.rsocket_base.RSocketBase._receiver_listen', 'rsocket.rsocket_base.RSocketBase._handle_next_frame',
               'rsocket.rsocket_base.RSocketBase._on_connection_closed', 'rsocket.rsocket_base.RSocketBase.finish_stream',
               'rsocket.stream_control.StreamControl.handle_stream', 'rsocket.stream_control.StreamControl.stop_all_streams',
               'rsocket.handlers.request_response_requester.RequestResponseRequester.frame_received',
               'rsocket.handlers.request_response_requester.RequestResponseRequester.cancel',
               'rsocket.handlers.request_response_responder.RequestResponseResponder.future_done',
               'rsocket.handlers.request_response_responder.RequestResponseResponder.frame_received',
               'rsocket.handlers.request_stream_requester.RequestStreamRequester.frame_received',
               'rsocket.handlers.request_stream_requester.RequestStreamRequester.cancel',
               'rsocket.handlers.request_stream_responder.RequestStreamResponder.frame_received',
               'rsocket.handlers.request_stream_responder.StreamSubscriber.on_next',
               'rsocket.handlers.request_cahnnel_common.RequestChannelCommon.frame_received',
               'rsocket.handlers.request_cahnnel_common.RequestChannelCommon.mark_completed_and_finish',
               'rsocket.handlers.request_cahnnel_common.RequestChannelCommon.cancel',
               'rsocket.handlers.request_cahnnel_common.StreamSubscriber.on_next',
               'rsocket.handlers.request_channel_requester.RequestChannelRequester.subscribe',
               'rsocket.handlers.request_cahnnel_responder.RequestChannelResponder.frame_received',
               'rsocket.streams.stream_handler.StreamHandler.initial_request_n', 'rsocket.frame_fragment_cache.FrameFragmentCache.append']


def _hist_parts(k, plen, extra_cfgs, roles=None, base=None):
    """partitions (role, first plen events) for the plain configuration + the listed extra configurations"""
    out = []
    for cfg in [dict(base or {})] + [dict(base or {}, **c) for c in extra_cfgs]:
        only_roles = cfg.pop('only_roles', None)
        for role in (roles or _ALPHA_N):
            if only_roles and role not in only_roles:
                continue
            if cfg.get('lease') and not role.endswith('_req'):
                continue
            if cfg.get('req_follows') and role.endswith('_req'):
                continue
            if (cfg.get('resp_no_pub') or cfg.get('req_complete')) and role != 'ch_resp':
                continue
            if cfg.get('early_first') and not role.endswith('_req'):
                continue
            na = _ALPHA_N[role] + (1 if cfg.get('lease') else 0)
            prefixes = [[]]
            # channel roles have the largest alphabets and three symbolic flags per PAYLOAD: one more fixed event
            for _ in range(min(k, plen + (1 if role.startswith('ch_') else 0))):
                prefixes = [p + [x] for p in prefixes for x in range(na)]
            for p in prefixes:
                d = dict(cfg)
                d.update({'role': role, 'k': k, 'prefix': p})
                out.append(d)
    return out


def _hist_spec(harness, tier, what, extra_cfgs, extra_conds=(), base=None):
    q = tier == 'quick'
    k = 3 if q else 4
    simple = ('rr_req', 'rs_req', 'rr_resp', 'rs_resp')
    chan = ('ch_req', 'ch_resp')
    if q:
        # quick: k=3 in the plain configuration, the extra configurations with one event less
        parts = _hist_parts(3, 1, [], base=base)
        parts += [p for p in _hist_parts(2, 1, extra_cfgs, base=base) if any(p.get(c) for cfg in extra_cfgs for c in cfg)]
    else:
        # thorough: k=4 for the request-response / request-stream roles, k=3 for the (much larger) channel roles,
        # the extra configurations at k=3 for every role
        parts = _hist_parts(4, 2, [], roles=simple, base=base) + _hist_parts(3, 1, [], roles=chan, base=base)
        parts += [p for p in _hist_parts(3, 1, extra_cfgs, base=base) if any(p.get(c) for cfg in extra_cfgs for c in cfg)]
    return dict(
        conds=[Cond(harness, 'c_history', parts=parts, timeout=600 if q else 1500)] + list(extra_conds),
        explanation='one real endpoint in each of six roles (request-response / request-stream / request-channel, requester '
                    'and responder) plus a bystander request, on the virtual loop; a history of k events chosen from the '
                    "role's alphabet - inbound PAYLOAD (symbolic next/complete/follows flags) / ERROR / CANCEL / REQUEST_N of a "
                    'protocol-legal peer, application cancel (optionally racing the next event) / emit / complete / fail / '
                    'request(n), connection loss by EOF / transport error / close() - then a final connection loss. ' + what,
        bounds=['k <= %s events per history (leading events fixed per process, rest symbolic), all six roles' % ('3 (2 in the extra configurations)' if q else '4 for request-response/request-stream roles, 3 for channel roles and the extra configurations'),
                'request-n 31-bit symbolic; configurations: plain%s' % ''.join(', ' + '+'.join(sorted(x for x in c if x != 'only_roles')) for c in extra_cfgs),
                'peer behaviour filtered by the legality automaton in harness/hist.py (what this library itself may emit)',
                '%d partitions' % len(parts)],
        outside=['histories longer than k, more than one interaction under test plus one bystander, illegal peers (C12)'],
        functions=_HIST_FUNCS,
        stubs=['S1', 'S2', 'S3', 'S6', 'S7 SimTransport', 'S8 recording application (publisher, subscriber, handler)'],
        assumptions=['assume/guarantee: a peer that is itself this library emits only what C08 allows, so "every legal peer" covers a real peer endpoint'],
    )


def spec_c07(tier, seed):
    return _hist_spec('c07_termination', tier,
                      'Monitor: every subscriber the library drives sees on_subscribe . on_next* . at most one terminal, nothing '
                      'after it; the request-response awaitable is resolved exactly once and never left pending.',
                      [{'frag': True}, {'resp_no_pub': True, 'req_complete': True},
                       dict({'neighbour_raises': True}, **({'only_roles': ('rr_req', 'rs_req', 'rr_resp', 'rs_resp')} if tier == 'quick' else {})),
                       {'empty_next': True, 'only_roles': ('rr_req', 'rs_req', 'ch_req', 'ch_resp')}])


def spec_c08(tier, seed):
    s = _spec_c08(tier, seed)
    # request-n as a full-width symbolic value in the short requester histories (elsewhere only its sign matters)
    hist = s['conds'][0]
    extra = [dict(p, nsym=True) for p in _hist_parts(2, 1, [], roles=('rs_req', 'ch_req', 'rs_resp'))]
    hist.parts = hist.parts + extra
    return s


def _spec_c08(tier, seed):
    return _hist_spec('c08_wire_legality', tier,
                      'Monitor: the role automaton of vlib/roles.py over every emitted frame, judged against the frames received '
                      'before it (SETUP first and once, parity, streams begin with a request, allowed types per model and role, '
                      'positive initial request-n incl. n <= 0 refused by the API, nothing after own COMPLETE/ERROR/CANCEL or after '
                      'both directions completed, connection frames on stream 0 only).',
                      [{'lease': True}, {'frag': True}, {'frag': True, 'early_first': True}])


def spec_c09(tier, seed):
    q = tier == 'quick'
    srcs = ('gen', 'agen', 'rx4', 'rx4bp', 'rx3', 'rx3bp')
    extra = [Cond('c09_cancel', 'c_cancel_end_to_end', parts=[{'e2e_kind': k} for k in range(3)], timeout=900),
             Cond('c09_cancel', 'c_cancel_library_sources', parts=[{'src': s, 'm': m} for s in srcs for m in ((2,) if q else (1, 2, 4))], timeout=400)]
    s = _hist_spec('c09_cancel', tier,
                   'Monitor: an application cancel produces exactly one CANCEL and nothing is delivered to the canceller afterwards '
                   '(also when the cancel races the next inbound frame); a CANCEL from the peer cancels the application publisher / '
                   'handler future and no PAYLOAD/ERROR follows; the bystander is served. c_cancel_end_to_end joins a real client and a real server by the '
                   'simulated link of C01 (cancel in the same tick as a small or multi-fragment request / with the request partly written / after delivery; '
                   'message, TCP and blocking-writer links) and checks both ends. A further condition does the producer side '
                   'with each library stream source (CANCEL in the same read as the request, after j elements, after completion).',
                   [{'lease': True}], extra_conds=extra)
    s['functions'] = s['functions'] + ['rsocket.streams.stream_from_generator.StreamFromGenerator.cancel',
                                       'rsocket.streams.stream_from_async_generator.StreamFromAsyncGenerator._cancel_generator',
                                       'rsocket.reactivex.back_pressure_publisher.InternalBackPressurePublisher.cancel',
                                       'rsocket.rx_support.back_pressure_publisher.InternalBackPressurePublisher.cancel']
    return s


def spec_c10(tier, seed):
    return _hist_spec('c10_no_state', tier,
                      'Monitor at quiescence: if the interaction has terminated by the protocol definition, no stream-table entry and no '
                      'partial frame remain for it (also with a FOLLOWS fragment pending), a new request on the id is accepted, and both '
                      'tables are empty once the bystander finished.',
                      [{'frag': True}, {'req_follows': True}, {'resp_no_pub': True, 'req_complete': True}, {'resp_no_pub': True}, {'req_complete': True},
                       {'req_follows': True, 'req_complete': True}],
                      extra_conds=[Cond('c09_cancel', 'c_cancel_end_to_end', parts=[{'e2e_kind': k} for k in range(3)], timeout=900)],
                      base={'probe_reuse': True})


def spec_c11(tier, seed):
    q = tier == 'quick'
    mixes = [(['rr', 'rs'], ['rr', 'rs']), (['rr', 'ch'], ['rr']), (['rs'], ['ch', 'rr']), (['rr', 'rs', 'ch'], ['rr', 'rs', 'ch'])]
    if not q:
        mixes += [([], ['rs', 'ch']), (['ch'], []), (['rs', 'rr'], ['ch', 'rs', 'rr']), (['ch', 'ch'], ['rs', 'rs'])]
    parts = []
    for role in ('server', 'client'):
        for mi, (own, inb) in enumerate(mixes):
            for mode in range(4):
                if q and ((mi + mode + (role == 'client')) % 2 == 1 or (mi == 3 and mode in (1, 2))):
                    continue
                parts.append({'role': role, 'own': own, 'inb': inb, 'mode': mode, 'raising': False, 'frag_tail': True})
        for mode in ((1,) if q else (0, 1, 2, 3)):
            parts.append({'role': role, 'own': ['rr', 'rs'], 'inb': ['rs', 'rr'], 'mode': mode, 'raising': True, 'frag_tail': True})
        for oc in (1, 2):
            for mode in ((0,) if q else (0, 1)):
                parts.append({'role': role, 'own': ['rr', 'ch'], 'inb': ['rr', 'rs'], 'mode': mode, 'raising': False, 'frag_tail': False, 'on_close': oc})
    return dict(
        conds=[Cond('c11_connection_loss', 'c_cut', parts=parts, timeout=600),
               Cond('c11_connection_loss', 'c_loss_library_sources',
                    parts=[{'src': x} for x in (('gen', 'agen', 'rx4bp') if tier == 'quick' else ('gen', 'agen', 'rx4', 'rx4bp', 'rx3', 'rx3bp'))], timeout=300),
               Cond('c11_connection_loss', 'w_cut_inside_fragmented_frame', timeout=120)],
        explanation='a real endpoint (server / client) on the REAL TransportTCP over a real asyncio.StreamReader, with own pending '
                    'interactions (request-response future, stream subscription, channel with publisher) and peer-opened ones '
                    '(handler future, recording publishers, optionally one whose cancel() raises); the inbound byte stream '
                    '(requests, REQUEST_N, a 3-fragment PAYLOAD) is cut at a SYMBOLIC byte offset and followed by EOF / read '
                    'error / application close() / failing write; after a symbolic settle time plus 3 s of virtual time: every '
                    'interaction pending at the cut failed exactly once with a connection error, publishers and handler futures '
                    'cancelled, on_close exactly once, nothing written afterwards (keep-alives included), tasks finished, no '
                    'stream left.  c_loss_library_sources: a responder over the library\'s own stream sources (generator, async '
                    'generator, reactivex / Rx) loses the connection in the same read as the request, one loop iteration later, '
                    'or after two elements: the source is not pulled after the close notification.',
        bounds=['cut offset: every byte position of a ~200-byte inbound stream (symbolic)', '4 failure modes; %d (role, pending mix, mode) partitions' % len(parts),
                '<= 3 own + <= 3 peer-opened pending interactions; settle time 0..5 s symbolic'],
        outside=['more pending interactions, longer inbound streams, failures of the StreamWriter other than write()/drain() raising'],
        functions=['rsocket.rsocket_base.RSocketBase._receiver', 'rsocket.rsocket_base.RSocketBase._receiver_listen', 'rsocket.rsocket_base.RSocketBase._on_connection_closed',
                   'rsocket.rsocket_base.RSocketBase._stop_tasks', 'rsocket.rsocket_base.RSocketBase._sender', 'rsocket.rsocket_base.RSocketBase.close',
                   'rsocket.stream_control.StreamControl.stop_all_streams', 'rsocket.rsocket_client.RSocketClient._close', 'rsocket.rsocket_client.RSocketClient._stop_tasks',
                   'rsocket.rsocket_client.RSocketClient._reconnect_listener', 'rsocket.helpers.wrap_transport_exception', 'rsocket.helpers.cancel_if_task_exists',
                   'rsocket.transports.tcp.TransportTCP.next_frame_generator', 'rsocket.transports.tcp.TransportTCP.serialize_partial', 'rsocket.frame_parser.FrameParser.receive_data',
                   'rsocket.streams.stream_from_generator.StreamFromGenerator.cancel', 'rsocket.streams.stream_from_generator.StreamFromGenerator.feed_subscriber',
                   'rsocket.handlers.request_stream_responder.RequestStreamResponder.dispose'],
        stubs=['S1', 'S2', 'S3', 'S4', 'S6', 'real TransportTCP + real StreamReader, recording StreamWriter stand-in', 'S8'],
    )


def spec_c12(tier, seed):
    q = tier == 'quick'
    lens = range(6, 15) if q else range(0, 21)
    l1 = []
    for ft in (0, 2, 3, 4, 5, 6, 7, 8, 9, 10, 12, 13, 14, 15, 62, 63):
        for n in lens:
            if q and ft in (0, 15, 62) and n not in (6, 10):
                continue
            l1.append({'ft': ft, 'len': n})
    for shape in ([0, 0, 3, 3], [1, 2, 3, 1], [0, 0, 0, 0], [0, 0, 127, 200], [1, 4, 1, 6]):
        for n in ((18, 24, 30) if q else (6, 12, 17, 18, 19, 20, 24, 26, 30, 36)):
            l1.append({'ft': 1, 'len': n, 'setup_shape': shape})
    for code in (0x001, 0x002, 0x003, 0x004, 0x101, 0x102, 0x201, 0x202, 0x203, 0x204, 0xFFFFFFFF, 0x0, 0x999, 0x7FFFFFFF):
        for n in ((10, 12) if q else (9, 10, 11, 14, 20)):
            l1.append({'ft': 11, 'len': n, 'code': code})
    l1 += [{'ft': 10, 'len': n} for n in (0, 1, 3, 5)]          # shorter than a header
    l2 = [{'ctx': c, 'role': r, 'ft2': f} for c in range(5) for r in ('server', 'client') for f in range(14)
          if not q or (c + f + (r == 'client')) % 2 == 0]
    if not q:
        l2 += [{'ctx': 0, 'role': 'server', 'ft2': f, 'second': True, 'ft3': g} for f in range(14) for g in range(14)]
    entries = ('on_setup', 'request_response', 'request_stream', 'request_channel', 'request_fire_and_forget', 'on_metadata_push', 'on_error')
    app = [{'adapter': a, 'entry': e} for a in ('plain', 'reactivex', 'rx') for e in entries]
    return dict(
        conds=[
            STUBVAL,
            E2_HDR,
            Cond('c12_hostile', 'c_bytes_to_frames', parts=l1, backends=('model',), timeout=300),
            Cond('c12_hostile', 'c_frames_to_endpoint', parts=l2, timeout=400),
            Cond('c12_hostile', 'c_app_failure', parts=app, timeout=300),
            Cond('c04_chunking', 'c_message', parts=[{'lm': 0}], timeout=60),
        ],
        explanation='two layers joined by the predicate "well-shaped frame object". Layer 1: ARBITRARY frame bodies (symbolic '
                    'bytes, one process per frame-type id and length; the 14 valid ids and 0/15/62/63 for unknown types) through '
                    'the real FrameParser.receive_data + parse_or_ignore + all 14 parse methods in both framings: terminates, '
                    '<= 1 object, well-shaped, nothing raised, buffer empty. Layer 2: after five contexts one fully symbolic '
                    'well-shaped frame (14 types x 5 stream-id classes x all flags x 32-bit n x all error codes), produced by real '
                    'serialize -> parse, reaches a real server / client; a probe request on a fresh id is answered, tasks alive, '
                    'reactions are only ERRORs on the offending stream or legitimate replies. Failing application code: every '
                    'handler entry point x 5 failure manners x {plain, reactivex, Rx} adapters: ERROR on that stream only, other '
                    'stream still served. The empty message (message transports) terminates.',
        bounds=['layer 1: body lengths %s; claimed metadata length <= 64, token length <= 8, MIME lengths fixed per process (unchecked slice bounds are enumerated by the engine)' % ([min(lens), max(lens)],),
                'layer 1 runs under the cbitstruct model back end S5 (header unpacking stays symbolic there); ERROR code field one value per process (14 values incl. invalid ones)',
                'layer 2: one hostile frame (thorough: two, all type pairs) after 5 contexts, both roles',
                'application failures: 7 entry points x 5 manners x 3 adapters'],
        outside=['bodies longer than 20 bytes (only the copied payload grows)', 'claimed lengths between the bound and the field maximum',
                 'the native back end on arbitrary bytes is covered through the E2 lemma "native and cbitstruct header parsers agree on every 6-byte header" plus the identical per-type parse methods; the native bit helpers on arbitrary bytes by C02 c_unpack_position / c_bits24 / c_parse_type'],
        functions=['rsocket.frame_parser.FrameParser.receive_data', 'rsocket.frame.parse_or_ignore', 'rsocket.frame.parse_header_cbitstruct',
                   'rsocket.frame.SetupFrame.parse', 'rsocket.frame.LeaseFrame.parse', 'rsocket.frame.KeepAliveFrame.parse', 'rsocket.frame.RequestResponseFrame.parse',
                   'rsocket.frame.RequestStreamFrame.parse', 'rsocket.frame.RequestChannelFrame.parse', 'rsocket.frame.RequestNFrame.parse', 'rsocket.frame.CancelFrame.parse',
                   'rsocket.frame.PayloadFrame.parse', 'rsocket.frame.ErrorFrame.parse', 'rsocket.frame.MetadataPushFrame.parse', 'rsocket.frame.ResumeFrame.parse',
                   'rsocket.frame.ResumeOKFrame.parse', 'rsocket.frame.FrameType.from_id', 'rsocket.rsocket_base.RSocketBase._receiver_listen',
                   'rsocket.rsocket_base.RSocketBase._handle_next_frame', 'rsocket.rsocket_base.RSocketBase.send_error', 'rsocket.frame.exception_to_error_frame',
                   'rsocket.handlers.request_response_responder.RequestResponseResponder.future_done', 'rsocket.reactivex.reactivex_handler_adapter.ReactivexHandlerAdapter.request_response',
                   'rsocket.rx_support.rx_handler_adapter.RxHandlerAdapter.request_response', 'rsocket.streams.stream_from_generator.StreamFromGenerator.queue_next_n'],
        stubs=['S1', 'S2', 'S3', 'S5 (validated)', 'S6', 'S7 SimTransport', 'S8 failing application code'],
        technique_extra='; stub translation validation by differential execution',
    )


def spec_c17(tier, seed):
    q = tier == 'quick'
    pends = [[a, b, w] for a in (False, True) for b in (False, True) for w in (0, 1)]
    parts = []
    for cause in range(4):
        parts.append({'cause': cause, 'rounds': 1})
        parts.append({'cause': cause, 'rounds': 1, 'close_raises': True})
        parts.append({'cause': cause, 'rounds': 1, 'suspend_connect': True})
        parts.append({'cause': cause, 'rounds': 1, 'frag_in': True, 'idle_max': 1100000 if q else 2500000})   # (rounds=2 took 35 min under load)
        if cause in (0, 1):
            parts.append({'cause': cause, 'rounds': 1, 'from_on_close': True})
            parts.append({'cause': cause, 'rounds': 2, 'from_on_close': True, 'pend': [True, True, 0], 'idle_max': 1100000})
        for p in pends:
            if q and (p[0] != p[1] or (cause == 2 and p[2] == 1)):
                continue
            parts.append({'cause': cause, 'rounds': 2, 'pend': p, 'idle_max': 1100000 if q else 2500000})
        if not q and cause in (0, 3):
            parts += [{'cause': cause, 'rounds': 3, 'pend': p, 'idle_max': 1100000} for p in pends if p[2] == 0 and p[0] == p[1]]
    return dict(
        conds=[Cond('c17_reconnect', 'c_reconnect', parts=parts, timeout=900)],
        explanation='a real RSocketClient (keep-alive 1 s, lifetime 3 s) with a provider of simulated transports; the connection ends by '
                    'server EOF / transport error (reconnect requested afterwards or from the on_close callback) / keep-alive time-out (the server goes silent and the application reconnects from '
                    'on_keepalive_timeout) / explicit reconnect while healthy, with 0..2 pending requests issued before or right at the '
                    'reconnect request, after SYMBOLIC idle and settle times (keep-alive ticks and time-out checks fall inside); 1..3 '
                    'consecutive reconnects. After each: old transport closed, pending requests failed exactly once, next transport '
                    'connected once, first frame a fresh SETUP (once), next stream id 1, KEEPALIVE flows again, a new request is answered; with frag_in the '
                    'server was half-way through a fragmented request of its own (stream 2) when the old connection ended, and its request on stream 2 of the new connection is served.',
        bounds=['4 causes x {0,1,2 pending: request-response, stream} x 2 moments x old transport close() succeeding / raising; idle/settle times 0..2.5 s each (symbolic integers, us)',
                '%s consecutive reconnects; %d partitions' % ('1-2' if q else '1-3', len(parts))],
        outside=['more than 3 consecutive reconnects, keep-alive/lifetime configurations other than 1 s / 3 s, providers that fail'],
        functions=['rsocket.rsocket_client.RSocketClient.reconnect', 'rsocket.rsocket_client.RSocketClient._reconnect_listener', 'rsocket.rsocket_client.RSocketClient.connect',
                   'rsocket.rsocket_client.RSocketClient._close', 'rsocket.rsocket_client.RSocketClient._connect_new_transport', 'rsocket.rsocket_client.RSocketClient._keepalive_timeout_task',
                   'rsocket.rsocket_base.RSocketBase._reset_internals', 'rsocket.rsocket_base.RSocketBase.close', 'rsocket.rsocket_base.RSocketBase._close_transport',
                   'rsocket.rsocket_base.RSocketBase._on_connection_closed', 'rsocket.stream_control.StreamControl.stop_all_streams'],
        stubs=['S1', 'S2', 'S3', 'S6', 'S7 SimTransport (auto-acknowledging keep-alives while the server is alive)', 'S8'],
    )


def spec_c19(tier, seed):
    q = tier == 'quick'
    auths = [[0, 0], [0, 1], [1, 0], [1, 1], [1, 2], [2, 0], [2, 1]] + ([] if q else [[2, 2], [0, 2]])
    parts = [{'rt': rt, 'auth': a, 'decoys': d} for rt in range(5) for a in auths for d in ((True,) if q else (True, False))]
    if q:
        parts = [dict(p, styles=([0, 3] if (p['rt'] + p['auth'][0]) % 2 else [1, 2]) + ([4] if p['auth'] in ([0, 0], [1, 1]) else []),
                      positions=[0, 2] if p['auth'][1] else [1, 2]) for p in parts]
    return dict(
        conds=[Cond('c19_routing', 'c_dispatch', parts=parts, timeout=600)],
        explanation='a real RSocketServer with RoutingRequestHandler + RequestRouter built through the public decorators; the route '
                    'table is described by three booleans (target handler / unknown-route handler for the target type / all other '
                    'handlers = decoys), handlers in 5 parameter styles (the fifth: a message type produced by a payload deserializer, the raw payload and the composite metadata); a request of each of the 5 routable interaction types with '
                    'route in {a, b, unregistered}, the route entry first / middle / last in the composite metadata (optionally two '
                    'tags), an authentication entry (absent / simple / bearer), a verifier (none / accepts / rejects) and a filler '
                    'entry with symbolic content arrives as real frames; a 15-line reference dispatch decides which recording '
                    'coroutine must have run, with which arguments, and what the requester must see (value / one ERROR on that '
                    'request / nothing for one-way requests); the gate: with a verifier configured no handler of any type runs '
                    'without an accepted authentication entry.',
        bounds=['5 interaction types x %d (verifier, authentication entry) combinations x decoys %s (partitions); per partition: 2^2 table booleans x 5 parameter styles x 3 routes x 3 positions x 1-2 tags' % (len(auths), 'present' if q else 'present/absent'),
                'route names are selectors (a symbolic string used as a dict key is realised by the engine); filler entry content symbolic'],
        outside=['more than 2 registered routes per type, payload serializers for responses, route names other than the three'],
        functions=['rsocket.routing.request_router.RequestRouter.route', 'rsocket.routing.request_router.RequestRouter._collect_route_arguments',
                   'rsocket.routing.request_router.RequestRouter._get_unknown_route', 'rsocket.routing.request_router.decorator_factory',
                   'rsocket.routing.routing_request_handler.RoutingRequestHandler._parse_and_route', 'rsocket.routing.routing_request_handler.RoutingRequestHandler._verify_authentication',
                   'rsocket.routing.routing_request_handler.RoutingRequestHandler.request_response', 'rsocket.routing.routing_request_handler.RoutingRequestHandler.request_stream',
                   'rsocket.routing.routing_request_handler.RoutingRequestHandler.request_channel', 'rsocket.routing.routing_request_handler.RoutingRequestHandler.request_fire_and_forget',
                   'rsocket.routing.routing_request_handler.RoutingRequestHandler.on_metadata_push', 'rsocket.extensions.helpers.require_route',
                   'rsocket.extensions.composite_metadata.CompositeMetadata.parse'],
        stubs=['S1', 'S2', 'S3', 'S6', 'S7 SimTransport', 'S8 recording route handlers and verifier'],
    )


def spec_c20(tier, seed):
    q = tier == 'quick'
    ms = (0, 1, 2) if q else (0, 1, 2, 3, 4)
    parts = [{'lib': l, 'm': m} for l in ('rx4', 'rx3') for m in ms]
    return dict(
        conds=[
            # m=3 also in the quick tier: the smallest stream on which a re-request BEFORE a whole batch was consumed
            # (limit 4, replenish after 3) shows as outstanding demand above the request limit (seed C20-4)
            Cond('c20_rx', 'c_client_stream', parts=parts + ([{'lib': l, 'm': 3} for l in ('rx4', 'rx3')] if q else []), timeout=600),
            Cond('c20_rx', 'c_client_channel_out', parts=parts, timeout=600),
            Cond('c20_rx', 'c_client_single', parts=[{'lib': l} for l in ('rx4', 'rx3')], timeout=300),
            Cond('c20_rx', 'c_handler_adapter', parts=parts, timeout=600),
            Cond('c20_rx', 'c_handler_cancel', parts=[{'lib': l} for l in ('rx4', 'rx3')], timeout=300),
        ],
        explanation='the ReactiveX (v4) and Rx (v3) client and handler adapters driven on the virtual loop and compared with what '
                    'the core API would do, stated as the expected observer events / wire frames / delegate calls: inbound streams '
                    'and channels (symbolic 31-bit request limit, peer holding M elements, three endings, disposal at every '
                    'position), outbound channel direction (plain observable or back-pressure factory, symbolic credits, failure '
                    'position), single-shot interactions, and the handler adapter (response / stream / channel with observer and '
                    'limit_rate / fire-and-forget / metadata-push / setup reach the delegate with the same arguments).',
        bounds=['element counts M in %s; request limit, credits, limit_rate 31-bit symbolic; error and disposal positions 0..M+1; both Rx versions' % (list(ms),)],
        outside=['more than %d elements, observables that emit from other threads or with delays, schedulers other than the immediate/asyncio default' % max(ms)],
        functions=['rsocket.reactivex.reactivex_client.ReactiveXClient.request_stream', 'rsocket.reactivex.reactivex_client.ReactiveXClient.request_channel',
                   'rsocket.reactivex.reactivex_client.ReactiveXClient.request_response', 'rsocket.reactivex.from_rsocket_publisher.from_rsocket_publisher',
                   'rsocket.reactivex.from_rsocket_publisher.RxSubscriber.on_next', 'rsocket.reactivex.from_rsocket_publisher.RxSubscriberFromObserver.on_next',
                   'rsocket.reactivex.back_pressure_publisher.observable_to_publisher', 'rsocket.reactivex.back_pressure_publisher.from_async_event_iterator',
                   'rsocket.reactivex.reactivex_handler_adapter.ReactivexHandlerAdapter.request_channel', 'rsocket.reactivex.reactivex_handler_adapter.ReactivexHandlerAdapter.on_metadata_push',
                   'rsocket.rx_support.rx_rsocket.RxRSocket.request_stream', 'rsocket.rx_support.rx_rsocket.RxRSocket.request_channel',
                   'rsocket.rx_support.from_rsocket_publisher.from_rsocket_publisher', 'rsocket.rx_support.back_pressure_publisher.observable_to_publisher',
                   'rsocket.rx_support.rx_handler_adapter.RxHandlerAdapter.request_channel', 'rsocket.rx_support.rx_handler_adapter.RxHandlerAdapter.on_metadata_push'],
        stubs=['S1', 'S2', 'S3', 'S6', 'S7 SimTransport', 'S8 recording observers/delegates', 'reactivex and Rx executed under the tracer'],
    )


def spec_c01(tier, seed):
    q = tier == 'quick'
    pairs = [[a, b] for a in range(5) for b in range(a, 5)]
    parts = []
    for pi, kinds in enumerate(pairs):
        if q:
            l1, mode = (pi + seed) % 4, (pi // 2 + seed) % 4
            for pace in (False, True):
                parts.append({'kinds': kinds, 'l1': l1 if not pace else (l1 + 2) % 4, 'mode': mode if pace else 4 + (pi % 2),
                              'l2': (pi + 1) % 4, 'pace': pace})
        else:
            for l1 in range(4):
                for j in range(3):
                    mode = (pi + l1 + 2 * j + seed) % 6
                    parts.append({'kinds': kinds, 'l1': l1, 'mode': mode, 'l2': (l1 + mode + 1) % 4})
                if kinds[0] != kinds[1]:
                    mode = (pi + l1 + 3) % 6
                    parts.append({'kinds': kinds[::-1], 'l1': l1, 'mode': mode, 'l2': (l1 + mode + 2) % 4})
    return dict(
        conds=[Cond('c01_e2e', 'c_end_to_end', parts=parts, timeout=900),
               # "all payload sizes from 0 bytes to many fragments": the end-to-end runs use length-class representatives;
               # that every other length (in particular the ones that end exactly on a fragment boundary) fragments and
               # reassembles to the original frame is this lemma of C03, which C01 therefore depends on
               Cond('c03_fragments', 'c_span_pipeline', parts=[{'cls': c, 'fmax': 100000 if q else 16777215} for c in range(5)],
                    timeout=400 if q else 1200)],
        explanation='a real RSocketClient and a real RSocketServer on one virtual loop joined by a simulated link: TCP framing '
                    'over the real TransportTCP / StreamReader / FrameParser with re-chunked delivery (whole, or the first '
                    'deliveries of one direction cut to 1 and 70 bytes so reads split length prefixes, headers and fragments, or with '
                    'writers whose drain() suspends so that send queues build up), '
                    'or message framing through the real AbstractMessagingTransport glue; two concurrent interactions out of '
                    '{request-response, fire-and-forget, stream, channel, metadata-push} started by either side, payloads of four '
                    'length classes (1..3+ fragments at size 64) with a distinct byte pattern each, fragmentation on/off, '
                    'responder publishers in a burst or one element per millisecond. Oracle: every payload handed in arrives '
                    'at the matching handler/subscriber exactly once, byte for byte, in order, nowhere else; each caller gets '
                    'its own response; nothing left open.  Payload sizes between the class representatives are covered by the '
                    'fragmentation / reassembly lemma c03_fragments.c_span_pipeline (data length, metadata length and fragment size '
                    'symbolic), an obligation of this check too.',
        bounds=['all %d unordered pairs of interaction models (thorough: both orders); who initiates each (symbolic), fragmentation (symbolic), pacing (symbolic)' % len(pairs),
                'length class of the first payload and link mode: %s; <= 2 elements per stream direction' % ('2 combinations per pair (rotating with the seed), one per pacing' if q else 'for every pair and every length class 3 of the 6 link modes (rotating), one more in the reversed order'),
                '%d partitions; on these paths every value is concrete once the selectors are branched on: the engine is an exhaustive enumerator of the bounded configuration space, the symbolic-data content of C01 sits in the lemmas it composes (C02, C03, C04, C05)' % len(parts)],
        outside=['more than two concurrent interactions, joint chunking of both directions, longer streams, other fragment sizes'],
        functions=['rsocket.rsocket_base.RSocketBase._sender', 'rsocket.rsocket_base.RSocketBase._receiver_listen', 'rsocket.rsocket_base.RSocketBase._handle_next_frame',
                   'rsocket.rsocket_base.RSocketBase.request_response', 'rsocket.rsocket_base.RSocketBase.request_stream', 'rsocket.rsocket_base.RSocketBase.request_channel',
                   'rsocket.rsocket_base.RSocketBase.fire_and_forget', 'rsocket.rsocket_base.RSocketBase.metadata_push', 'rsocket.rsocket_base.RSocketBase.register_new_stream',
                   'rsocket.stream_control.StreamControl.handle_stream', 'rsocket.frame.FrameFragmentMixin.get_next_fragment', 'rsocket.frame_fragment_cache.FrameFragmentCache.append',
                   'rsocket.frame_parser.FrameParser.receive_data', 'rsocket.transports.tcp.TransportTCP.send_frame', 'rsocket.transports.tcp.TransportTCP.next_frame_generator',
                   'rsocket.transports.abstract_messaging.AbstractMessagingTransport.next_frame_generator', 'rsocket.streams.stream_from_generator.StreamFromGenerator.feed_subscriber'],
        stubs=['S1', 'S2', 'S3', 'S4', 'S6', 'SimLink: real TransportTCP over Pipe (StreamReader + recording writer) / SimMessageTransport', 'S8 echo handlers'],
    )
