"""S5: pure-Python model of the cbitstruct calls rsocket makes (big-endian, MSB first).

Every field is computed byte by byte with div/mod on single bytes so that the
arithmetic stays symbolic (and linear per byte) under CrossHair.  Validated
against the real compiled extension on every run by vlib.validate_stubs.
"""
import re
import struct as _struct

_FMT_CACHE = {}


def _parse(fmt):
    r = _FMT_CACHE.get(fmt)
    if r is None:
        r = [(k, int(n)) for k, n in re.findall(r'([ub])(\d+)', fmt)]
        _FMT_CACHE[fmt] = r
    return r


def _bits_total(items):
    return sum(n for _, n in items)


def unpack_from(fmt, buffer, offset=0):
    """NB: like the real extension, `offset` is a BIT offset"""
    items = _parse(fmt)
    total = _bits_total(items)
    nbytes = (offset + total + 7) // 8
    chunk = buffer[:nbytes]
    if len(chunk) < nbytes:
        raise TypeError('unpack requires at least %d bits to unpack' % total)
    out = []
    pos = offset
    for k, n in items:
        val = 0
        bit = pos
        end = pos + n
        while bit < end:
            byte_i = bit // 8
            hi = bit % 8
            take = min(8 - hi, end - bit)
            lo = 8 - hi - take
            part = (chunk[byte_i] // (2 ** lo)) % (2 ** take)
            val = val * (2 ** take) + part
            bit += take
        out.append(val if k == 'u' else val != 0)
        pos = end
    return tuple(out)


def unpack(fmt, buffer):
    return unpack_from(fmt, buffer, 0)


def pack(fmt, *vals):
    items = _parse(fmt)
    total = _bits_total(items)
    nbytes = (total + 7) // 8
    # big-endian bit string assembled field by field, emitted byte by byte with div/mod
    acc = 0
    for (k, n), x in zip(items, vals):
        if x is True:
            x = 1
        elif x is False:
            x = 0
        if not (0 <= x < 2 ** n):
            raise TypeError('value out of range')
        acc = acc * (2 ** n) + x
    acc = acc * (2 ** (nbytes * 8 - total))
    # struct.pack keeps the value symbolic under CrossHair (bytes([...]) of symbolic ints would realise them)
    return _struct.pack('>Q', acc)[8 - nbytes:]
