"""Driver: condition discovery, twins, partitioning, CrossHair runner, result parser, replay, evidence.

See DESIGN §3.  Exit codes of a check: 0 held, 1 violation (replay-confirmed), 3 harness error / core inconclusive.
"""
import ast
import concurrent.futures as cf
import hashlib
import importlib
import json
import os
import re
import shutil
import subprocess
import sys
import time

ROOT = os.path.dirname(os.path.dirname(os.path.abspath(__file__)))
VENV_PY = os.path.join(ROOT, '.venv', 'bin', 'python')
WORK = os.path.join(ROOT, '.work')
REPO = os.environ.get('VERIF_REPO', '/repo')
NCPU = int(os.environ.get('VERIF_JOBS', '16'))


# ----------------------------------------------------------------------------- spec objects
class Cond:
    """one CrossHair condition (function) possibly split into partitions (one OS process each)"""

    def __init__(self, harness, func, parts=None, backends=('native',), timeout=120, core=True,
                 path_timeout=None, twin=True, note=''):
        self.harness = harness
        self.func = func
        self.parts = parts if parts is not None else [{}]
        self.backends = tuple(backends)
        self.timeout = timeout
        self.core = core
        self.path_timeout = path_timeout or max(30, timeout // 2)
        self.twin = twin
        self.note = note
        self.kind = 'witness' if func.startswith('w_') else 'cond'


class Script:
    """non-CrossHair solver job (E2) or stub validation: prints one JSON object on its last stdout line"""

    def __init__(self, name, argv, timeout=300, core=True):
        self.name = name
        self.argv = argv
        self.timeout = timeout
        self.core = core
        self.kind = 'script'


# ----------------------------------------------------------------------------- setup
def ensure_venv(verbose=False):
    marker = os.path.join(ROOT, '.venv', '.ok')
    if os.path.exists(marker) and os.path.exists(VENV_PY):
        return
    lock = os.path.join(ROOT, '.venv.lock')
    import fcntl
    with open(lock, 'w') as lf:
        fcntl.flock(lf, fcntl.LOCK_EX)
        if os.path.exists(marker) and os.path.exists(VENV_PY):
            return
        if os.path.exists(os.path.join(ROOT, '.venv')):
            shutil.rmtree(os.path.join(ROOT, '.venv'))
        run = lambda *a: subprocess.run(a, check=True, stdout=None if verbose else subprocess.DEVNULL,
                                        stderr=None if verbose else subprocess.DEVNULL)
        run('/venv/bin/python', '-m', 'venv', os.path.join(ROOT, '.venv'))
        sp = subprocess.check_output([VENV_PY, '-c', 'import sysconfig;print(sysconfig.get_paths()["purelib"])'],
                                     text=True).strip()
        with open(os.path.join(sp, 'overlay.pth'), 'w') as f:
            f.write('/venv/lib/python3.12/site-packages\n')
        env = dict(os.environ, PIP_NO_INDEX='1')
        subprocess.run([VENV_PY, '-m', 'pip', 'install', '-q', '--no-index', '--find-links', '/opt/veriftools/wheels',
                        'crosshair-tool', 'z3-solver', 'cvc5'], check=True, env=env,
                       stdout=None if verbose else subprocess.DEVNULL, stderr=None if verbose else subprocess.DEVNULL)
        open(marker, 'w').write('ok\n')


# ----------------------------------------------------------------------------- source handling
def func_line(path, func):
    tree = ast.parse(open(path).read())
    for node in ast.walk(tree):
        if isinstance(node, ast.FunctionDef) and node.name == func:
            # a line inside the def (first body statement is the docstring)
            return node.body[0].lineno
    raise KeyError('%s not found in %s' % (func, path))


_POST = re.compile(r'^(\s*)post:\s*(.*)$')


def make_twin_file(src_path):
    """reach twin: every `post: X` becomes `post: not (X)` — must be REFUTED (some path satisfies X at the end)"""
    os.makedirs(os.path.join(WORK, 'gen'), exist_ok=True)
    base = os.path.basename(src_path)[:-3]
    dst = os.path.join(WORK, 'gen', base + '__reach.py')
    out = []
    for line in open(src_path).read().split('\n'):
        m = _POST.match(line)
        if m:
            out.append('%spost: not (%s)' % (m.group(1), m.group(2)))
        else:
            out.append(line)
    tmp = dst + '.%d.tmp' % os.getpid()
    with open(tmp, 'w') as f:
        f.write('\n'.join(out))
    os.replace(tmp, dst)
    return dst


# ----------------------------------------------------------------------------- running one job
_MSG = re.compile(r'^(?P<file>[^:]+\.py):(?P<line>\d+): (?P<level>error|info|warning): (?P<msg>.*)$')


def _env(part, backend, stats=None, replay=False):
    env = dict(os.environ)
    env['PYTHONPATH'] = ROOT + os.pathsep + REPO
    env['VERIF_PART'] = json.dumps(part, sort_keys=True)
    env['VERIF_BACKEND'] = backend
    env['VERIF_REPO'] = REPO
    env['PYTHONHASHSEED'] = '0'
    env.pop('VERIF_STATS', None)
    env.pop('VERIF_REPLAY', None)
    if stats:
        env['VERIF_STATS'] = stats
    if replay:
        env['VERIF_REPLAY'] = '1'
    return env


def run_crosshair(path, func, part, backend, timeout, path_timeout, tag):
    stats = '1'
    line = func_line(path, func)
    cmd = [VENV_PY, '-m', 'crosshair', 'check', '%s:%d' % (path, line), '--report_all',
           '--per_condition_timeout', str(timeout), '--per_path_timeout', str(path_timeout),
           '--extra_plugin', os.path.join(ROOT, 'vlib', 'plug.py')]
    t0 = time.time()
    try:
        p = subprocess.run(cmd, env=_env(part, backend, stats), cwd=ROOT, capture_output=True, text=True,
                           timeout=timeout * 1.5 + 120)
        out, err, rc = p.stdout, p.stderr, p.returncode
    except subprocess.TimeoutExpired as e:
        out = (e.stdout or b'').decode() if isinstance(e.stdout, bytes) else (e.stdout or '')
        err = 'PROCESS TIMEOUT'
        rc = -9
    wall = time.time() - t0
    res = {'status': 'inconclusive', 'reason': '', 'wall_s': round(wall, 2), 'solver_s': 0.0, 'solver_queries': 0,
           'paths': 0, 'nontrivial': 0, 'samples': [], 'rc': rc}
    m = re.search(r'SOLVER_STATS checks=(\d+) time=([\d.]+)', err or '')
    if m:
        res['solver_queries'] = int(m.group(1))
        res['solver_s'] = float(m.group(2))
    m = re.search(r'PATH_STATS (\{.*\})', err or '')
    if m:
        try:
            ps = json.loads(m.group(1))
            res['paths'] = ps['paths']
            res['nontrivial'] = ps['nt']
            res['samples'] = [json.loads(x) for x in ps['samples'][:3]]
        except Exception:
            pass
    msgs = []
    for ln in (out or '').split('\n'):
        mm = _MSG.match(ln.strip())
        if mm:
            msgs.append((mm.group('level'), mm.group('msg')))
    res['messages'] = [m_[1][:400] for m_ in msgs]
    if not msgs:
        res['reason'] = 'no verdict from engine (rc=%s) %s' % (rc, (err or '')[-300:].replace('\n', ' | '))
        return res
    level, msg = msgs[0]
    if level == 'info' and msg.startswith('Confirmed over all paths'):
        res['status'] = 'confirmed'
    elif level == 'error':
        res['status'] = 'cex'
        res['message'] = msg
        call = None
        if ' when calling ' in msg:
            call = msg.split(' when calling ', 1)[1]
            if ' (which returns ' in call:
                call = call.split(' (which returns ', 1)[0]
        res['call'] = call
        res['what'] = msg.split(' when calling ', 1)[0]
    else:
        res['reason'] = msg
    return res


def run_replay(path, func, part, backend, call, timeout=300):
    cmd = [VENV_PY, '-m', 'vlib.replay', path, func, call]
    try:
        p = subprocess.run(cmd, env=_env(part, backend, replay=True), cwd=ROOT, capture_output=True, text=True,
                           timeout=timeout)
    except subprocess.TimeoutExpired:
        return {'verdict': None, 'exception': 'ReplayTimeout', 'hang': True}
    last = [l for l in p.stdout.strip().split('\n') if l.startswith('{')]
    if not last:
        return {'verdict': None, 'exception': 'replay-crashed: ' + (p.stderr or '')[-400:]}
    return json.loads(last[-1])


def run_script(argv, timeout):
    t0 = time.time()
    try:
        p = subprocess.run([VENV_PY] + argv, env=_env({}, 'native'), cwd=ROOT, capture_output=True, text=True,
                           timeout=timeout)
    except subprocess.TimeoutExpired:
        return {'status': 'inconclusive', 'reason': 'script timeout', 'wall_s': round(time.time() - t0, 2)}
    last = [l for l in p.stdout.strip().split('\n') if l.startswith('{')]
    if not last:
        return {'status': 'inconclusive', 'reason': 'script produced no result: ' + (p.stderr or '')[-400:],
                'wall_s': round(time.time() - t0, 2)}
    r = json.loads(last[-1])
    r['wall_s'] = round(time.time() - t0, 2)
    return r


# ----------------------------------------------------------------------------- a whole property
def source_digest(functions):
    """functions: dotted names under the rsocket / reactivestreams packages; returns {name: sha1 of current source}"""
    code = ('import sys, json, hashlib, inspect, importlib\n'
            'out={}\n'
            'for name in json.loads(sys.argv[1]):\n'
            '    parts=name.split(".")\n'
            '    obj=None\n'
            '    for i in range(len(parts),0,-1):\n'
            '        try:\n'
            '            obj=importlib.import_module(".".join(parts[:i])); rest=parts[i:]; break\n'
            '        except ImportError: continue\n'
            '    try:\n'
            '        for r in rest: obj=getattr(obj,r)\n'
            '        out[name]=hashlib.sha1(inspect.getsource(obj).encode()).hexdigest()[:12]\n'
            '    except Exception as e: out[name]="MISSING:"+type(e).__name__\n'
            'print(json.dumps(out))\n')
    p = subprocess.run([VENV_PY, '-c', code, json.dumps(functions)], env=_env({}, 'native'), capture_output=True,
                       text=True)
    try:
        return json.loads(p.stdout.strip().split('\n')[-1])
    except Exception:
        return {f: 'UNRESOLVED' for f in functions}


def check_property(prop_id, tier, spec, seed=0, verbose=True):
    """spec: dict(conds=[Cond|Script...], explanation, assumptions, functions, bounds, stubs, rule)"""
    from vlib import known
    t_start = time.time()
    ensure_venv()
    os.makedirs(WORK, exist_ok=True)
    allowed = known.allowed(prop_id)
    jobs = []
    twin_files = {}
    for c in spec['conds']:
        if c.kind == 'script':
            jobs.append({'kind': 'script', 'cond': c, 'name': c.name})
            continue
        path = os.path.join(ROOT, 'harness', c.harness + '.py')
        for be in c.backends:
            for part in c.parts:
                ptag = hashlib.sha1(json.dumps(part, sort_keys=True).encode()).hexdigest()[:8]
                name = '%s.%s[%s|%s]' % (c.harness, c.func, be, ','.join('%s=%s' % kv for kv in sorted(part.items())))
                tag = '%s-%s-%s-%s-%s' % (prop_id, c.harness, c.func, be, ptag)
                jobs.append({'kind': c.kind, 'cond': c, 'path': path, 'part': part, 'backend': be, 'name': name,
                             'tag': tag})
                if c.kind == 'cond' and c.twin:
                    if path not in twin_files:
                        twin_files[path] = make_twin_file(path)
                    jobs.append({'kind': 'twin', 'cond': c, 'path': twin_files[path], 'part': part, 'backend': be,
                                 'name': name + '#reach', 'tag': tag + '-reach', 'of': name})

    def do(job):
        c = job['cond']
        if job['kind'] == 'script':
            return job, run_script(c.argv + ['--tier', tier, '--seed', str(seed)], c.timeout)
        if job['kind'] == 'twin':
            r = run_crosshair(job['path'], c.func, job['part'], job['backend'], min(c.timeout, 120),
                              c.path_timeout, job['tag'])
            return job, r
        r = run_crosshair(job['path'], c.func, job['part'], job['backend'], c.timeout, c.path_timeout, job['tag'])
        if r['status'] == 'inconclusive' and c.kind == 'cond' and c.core:
            r2 = run_crosshair(job['path'], c.func, job['part'], job['backend'], c.timeout * 2, c.path_timeout * 2,
                               job['tag'])
            r2['retried'] = True
            r2['first_attempt'] = {'reason': r['reason'], 'wall_s': r['wall_s']}
            r = r2
        return job, r

    # longest first
    jobs.sort(key=lambda j: -(j['cond'].timeout if j['kind'] != 'twin' else 1))
    results = []
    with cf.ThreadPoolExecutor(max_workers=NCPU) as ex:
        for job, r in ex.map(do, jobs):
            results.append((job, r))
            if verbose:
                extra = r.get('reason') or r.get('message') or ''
                sys.stderr.write('  [%s] %-11s %6.1fs paths=%-5s %s %s\n' % (
                    prop_id, r.get('status'), r.get('wall_s', 0), r.get('paths', '-'), job['name'], extra[:200]))
                sys.stderr.flush()

    # ---- adjudicate ------------------------------------------------------------
    violations = []          # (job, replay path)
    harness_errors = []
    inconclusive = []
    known_hits = []
    obligations = 0
    discharged = 0
    twins_ok = {}
    per_cond = []
    samples = []
    for job, r in results:
        if job['kind'] == 'twin':
            ok = r['status'] == 'cex'
            twins_ok[job['of']] = ok
            if ok and len(samples) < 6 and r.get('call'):
                samples.append({'reach_witness_for': job['of'], 'input': r['call'][:300]})
    for job, r in results:
        c = job['cond']
        entry = {'name': job['name'], 'kind': job['kind'], 'status': r.get('status'), 'wall_s': r.get('wall_s'),
                 'paths': r.get('paths', 0), 'nontrivial': r.get('nontrivial', 0),
                 'solver_s': r.get('solver_s', 0), 'solver_queries': r.get('solver_queries', 0)}
        if r.get('retried'):
            entry['retried'] = True
        if job['kind'] == 'twin':
            continue
        if job['kind'] == 'script':
            obligations += r.get('obligations', 1)
            entry.update({k: r[k] for k in ('queries', 'solver_s', 'detail', 'obligations', 'discharged') if k in r})
            if r['status'] == 'confirmed':
                discharged += r.get('discharged', r.get('obligations', 1))
            elif r['status'] == 'violation':
                rp = write_replay(prop_id, job['name'], {'script': c.argv, 'counterexample': r.get('counterexample'),
                                                         'detail': r.get('detail')})
                if r.get('replayed'):
                    violations.append((job, rp, r.get('detail', '')))
                else:
                    harness_errors.append((job, 'script counterexample did not replay: %s' % r.get('detail')))
            else:
                entry['reason'] = r.get('reason')
                (inconclusive if not c.core else harness_errors).append((job, r.get('reason', 'inconclusive')))
            for s in r.get('samples', [])[:3]:
                if len(samples) < 12:
                    samples.append(s)
            per_cond.append(entry)
            continue
        if job['kind'] == 'witness':
            obligations += 1
            if r['status'] == 'cex':
                discharged += 1
                if len(samples) < 12:
                    samples.append({'witness': job['name'], 'input': (r.get('call') or '')[:300]})
            else:
                entry['reason'] = 'witness region not shown reachable: ' + (r.get('reason') or r['status'])
                inconclusive.append((job, entry['reason']))
            per_cond.append(entry)
            continue
        # ordinary condition
        obligations += 1
        for s in r.get('samples', []):
            if len(samples) < 12:
                samples.append({'path_of': job['name'], 'case': s})
        if r['status'] == 'confirmed':
            if c.twin and not twins_ok.get(job['name'], False):
                entry['status'] = 'vacuous?'
                entry['reason'] = 'reach twin was not refuted'
                (harness_errors if c.core else inconclusive).append((job, entry['reason']))
            else:
                discharged += 1
        elif r['status'] == 'cex':
            call = r.get('call')
            entry['counterexample'] = call
            rep = run_replay(job['path'], c.func, job['part'], job['backend'], call) if call else {'exception': 'unparsed'}
            entry['replay'] = rep
            verdict = rep.get('verdict')
            reproduced = (verdict is not None and verdict not in allowed) or \
                         (rep.get('exception') and rep.get('in_repo')) or rep.get('hang')
            if reproduced:
                rp = write_replay(prop_id, job['name'], {'harness': os.path.relpath(job['path'], ROOT), 'func': c.func,
                                                         'part': job['part'], 'backend': job['backend'], 'call': call,
                                                         'engine_message': r.get('message'), 'replay': rep})
                violations.append((job, rp, verdict or rep.get('exception')))
            else:
                harness_errors.append((job, 'counterexample did not reproduce on the real modules: %s -> %s'
                                       % (r.get('message'), rep)))
        else:
            entry['reason'] = r.get('reason')
            (harness_errors if c.core else inconclusive).append((job, r.get('reason') or 'inconclusive'))
        per_cond.append(entry)

    # ---- known findings ----------------------------------------------------------
    for e in known.entries():
        if e['kind'] != 'known' or e['property'] != prop_id:
            continue
        wpath = os.path.join(ROOT, 'known_witnesses', e['witness']) if e.get('witness') else None
        still = None
        if wpath and os.path.exists(wpath):
            w = json.load(open(wpath))
            rep = run_replay(os.path.join(ROOT, w['harness']), w['func'], w.get('part', {}), w.get('backend', 'native'),
                             w['call'])
            still = rep.get('verdict') == e['key']
        known_hits.append({'key': e['key'], 'text': e['text'], 'still_fails': still})
        if still or still is None:
            print('KNOWN-FINDING: property=%s %s [%s]' % (prop_id, e['text'], e['key']))

    # ---- evidence -----------------------------------------------------------------
    total_paths = sum(x.get('paths', 0) for x in per_cond)
    total_nt = sum(x.get('nontrivial', 0) for x in per_cond)
    digests = source_digest(spec.get('functions', []))
    missing = [k for k, v in digests.items() if v.startswith('MISSING') or v == 'UNRESOLVED']
    wall = time.time() - t_start
    ev = {
        'property_id': prop_id, 'tier': tier, 'seed': seed, 'level': 'other',
        'coverage': {
            'explanation': spec['explanation'],
            'technique': 'bounded symbolic execution of the real Python source with CrossHair+z3 (per-path SMT); '
                         'verdict "Confirmed over all paths" per condition' + spec.get('technique_extra', ''),
            'evaluations': max(total_paths, 0),
            'distinct_nontrivial': total_nt,
            'rule': spec.get('rule', 'one evaluation = one feasible symbolic path explored to the end of a harness body; '
                                     'non-trivial = the monitor on that path observed at least one event of the kind the '
                                     'property is about'),
            'samples': samples if samples else [{'note': 'no sample recorded'}],
            'obligations': obligations, 'discharged': discharged,
            'exhaustive': bool(obligations and obligations == discharged),
            'bounds': spec.get('bounds', []),
            'outside_bounds': spec.get('outside', []),
            'functions_encoded': digests,
            'stubs': spec.get('stubs', []),
            'conditions': per_cond,
            'reach_twins_refuted': sum(1 for v in twins_ok.values() if v), 'reach_twins_total': len(twins_ok),
            'solver_queries': sum(x.get('solver_queries', 0) or 0 for x in per_cond),
            'solver_s': round(sum(x.get('solver_s', 0) or 0 for x in per_cond), 2),
            'inconclusive': [{'name': j['name'], 'reason': str(why)[:300]} for j, why in inconclusive],
            'harness_errors': [{'name': j['name'], 'reason': str(why)[:600]} for j, why in harness_errors],
            'known_findings': known_hits,
            'violation_list': [{'name': j['name'], 'replay': rp, 'diagnosis': str(d)[:300]} for j, rp, d in violations],
            'missing_functions': missing,
        },
        'assumptions': spec.get('assumptions', []),
        'wall_s': round(wall, 2),
        'violations': len(violations),
    }
    os.makedirs(os.path.join(ROOT, 'evidence'), exist_ok=True)
    with open(os.path.join(ROOT, 'evidence', prop_id + '.json'), 'w') as f:
        json.dump(ev, f, indent=1, default=repr)

    for job, rp, diag in violations:
        print('VIOLATION property=%s replay=%s' % (prop_id, rp))
        print('  condition %s: %s' % (job['name'], diag))
    if violations:
        return 1
    if harness_errors or missing:
        for job, why in harness_errors:
            print('HARNESS-ERROR property=%s %s: %s' % (prop_id, job['name'], str(why)[:500]))
        for m_ in missing:
            print('HARNESS-ERROR property=%s function %s no longer resolvable' % (prop_id, m_))
        return 3
    print('OK property=%s tier=%s obligations=%d discharged=%d paths=%d wall=%.0fs%s' % (
        prop_id, tier, obligations, discharged, total_paths, wall,
        (' inconclusive(non-core)=%d' % len(inconclusive)) if inconclusive else ''))
    return 0


def write_replay(prop_id, name, obj):
    d = os.path.join(ROOT, 'replays', prop_id)
    os.makedirs(d, exist_ok=True)
    h = hashlib.sha1(json.dumps(obj, sort_keys=True, default=repr).encode()).hexdigest()[:10]
    safe = re.sub(r'[^A-Za-z0-9_.-]+', '_', name)[:80]
    p = os.path.join(d, '%s-%s.json' % (safe, h))
    with open(p, 'w') as f:
        json.dump(obj, f, indent=1, default=repr)
    return p
