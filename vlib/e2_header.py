"""E2 lemma: the two header parsers selected at import time agree on EVERY 6-byte header (reserved bit clear).

The CURRENT source of rsocket.frame.parse_header_native and rsocket.frame.parse_header_cbitstruct is parsed (ast)
and interpreted symbolically over six 8-bit z3 bit-vectors (zero-extended to 64 bit: Python ints do not wrap, and
no intermediate value here exceeds 48 bit).  Supported subset: attribute/tuple assignment, `|=`, `&`, `|`, `<<`,
`>>`, integer constants and module-level integer constants, len(buffer), struct.unpack_from('>IBB', buffer, offset),
cbitstruct.unpack_from(<format of u/b fields>, buffer, offset) with the extension's documented big-endian bit-field
semantics (validated against the compiled extension by vlib.validate_stubs), is_flag_set (its own source is
inlined), FrameType.from_id (kept as the numeric id), Flags().  Anything else => Unsupported => inconclusive.

Prints one JSON line (see vlib.engine.Script)."""
import argparse
import ast
import inspect
import json
import re
import sys
import textwrap
import time

import z3

W = 64


class Unsupported(Exception):
    pass


class Obj:
    """a frame / flags object: attribute store"""

    def __init__(self):
        self.attrs = {}


def bv(x):
    return z3.BitVecVal(x, W) if isinstance(x, int) else x


class Interp:
    def __init__(self, module, bytes_):
        self.module = module
        self.b = bytes_            # list of 6 z3 BitVec(8)
        self.env = {}

    def const(self, name):
        v = getattr(self.module, name, None)
        if isinstance(v, bool) or not isinstance(v, int):
            raise Unsupported('name ' + name)
        return z3.BitVecVal(v, W)

    def unpack_struct(self, fmt, offset):
        if fmt != '>IBB' or offset != 0:
            raise Unsupported('struct format %r at offset %r' % (fmt, offset))
        z = [z3.ZeroExt(W - 8, x) for x in self.b]
        sid = (z[0] << 24) | (z[1] << 16) | (z[2] << 8) | z[3]
        return [sid, z[4], z[5]]

    def unpack_bits(self, fmt, offset):
        if offset != 0:
            raise Unsupported('bit offset')
        items = re.findall(r'([ub])(\d+)', fmt)
        if ''.join(k + n for k, n in items) != fmt:
            raise Unsupported('cbitstruct format ' + fmt)
        total = sum(int(n) for _, n in items)
        if total > 8 * len(self.b):
            raise Unsupported('format longer than the header')
        whole = z3.Concat(*self.b)                      # 48 bits, MSB first
        out = []
        pos = 0
        nbits = 8 * len(self.b)
        for k, n in items:
            n = int(n)
            hi = nbits - 1 - pos
            lo = hi - n + 1
            field = z3.Extract(hi, lo, whole)
            if k == 'u':
                out.append(z3.ZeroExt(W - n, field))
            else:
                out.append(field != z3.BitVecVal(0, n))
            pos += n
        return out

    def expr(self, n):
        if isinstance(n, ast.Constant):
            if isinstance(n.value, bool) or not isinstance(n.value, (int, str)):
                raise Unsupported('constant')
            return z3.BitVecVal(n.value, W) if isinstance(n.value, int) else n.value
        if isinstance(n, ast.Name):
            if n.id in self.env:
                return self.env[n.id]
            return self.const(n.id)
        if isinstance(n, ast.Attribute):
            base = self.expr_obj(n.value)
            if isinstance(base, Obj):
                if n.attr not in base.attrs:
                    raise Unsupported('read of unset attribute ' + n.attr)
                return base.attrs[n.attr]
            raise Unsupported('attribute ' + n.attr)
        if isinstance(n, ast.BinOp):
            a, b = self.expr(n.left), self.expr(n.right)
            if isinstance(a, z3.BoolRef) or isinstance(b, z3.BoolRef):
                raise Unsupported('arithmetic on a boolean')
            op = n.op
            if isinstance(op, ast.BitAnd):
                return a & b
            if isinstance(op, ast.BitOr):
                return a | b
            if isinstance(op, ast.LShift):
                return a << b
            if isinstance(op, ast.RShift):
                return z3.LShR(a, b)
            if isinstance(op, ast.Add):
                return a + b
            raise Unsupported('operator ' + type(op).__name__)
        if isinstance(n, ast.Compare) and len(n.ops) == 1:
            a, b = self.expr(n.left), self.expr(n.comparators[0])
            if isinstance(n.ops[0], ast.NotEq):
                return a != b
            if isinstance(n.ops[0], ast.Eq):
                return a == b
            raise Unsupported('comparison')
        if isinstance(n, ast.Call):
            return self.call(n)
        raise Unsupported(type(n).__name__)

    def expr_obj(self, n):
        if isinstance(n, ast.Name) and n.id in self.env:
            return self.env[n.id]
        raise Unsupported('object expression')

    def call(self, n):
        f = n.func
        name = f.id if isinstance(f, ast.Name) else (f.value.id + '.' + f.attr if isinstance(f, ast.Attribute) and isinstance(f.value, ast.Name) else None)
        if name == 'len':
            return z3.BitVecVal(6, W)
        if name == 'Flags':
            return Obj()
        if name == 'struct.unpack_from':
            fmt = self.expr(n.args[0])
            off = n.args[2] if len(n.args) > 2 else None
            return self.unpack_struct(fmt, self._offset(off))
        if name == 'cbitstruct.unpack_from':
            fmt = self.expr(n.args[0])
            off = n.args[2] if len(n.args) > 2 else None
            return self.unpack_bits(fmt, self._offset(off))
        if name == 'FrameType.from_id':
            return self.expr(n.args[0])                 # keep the numeric id (from_id is the same function for both)
        if name == 'is_flag_set':
            fn = getattr(self.module, 'is_flag_set')
            src = ast.parse(textwrap.dedent(inspect.getsource(fn))).body[0]
            params = [a.arg for a in src.args.args]
            body = [s for s in src.body if not (isinstance(s, ast.Expr) and isinstance(getattr(s, 'value', None), ast.Constant))]
            if len(body) != 1 or not isinstance(body[0], ast.Return) or len(params) != len(n.args):
                raise Unsupported('is_flag_set shape')
            sub = Interp(sys.modules[fn.__module__], self.b)
            sub.env = dict(zip(params, [self.expr(a) for a in n.args]))
            return sub.expr(body[0].value)
        raise Unsupported('call ' + str(name))

    def _offset(self, node):
        if node is None:
            return 0
        v = self.expr(node)
        v = z3.simplify(v)
        if z3.is_bv_value(v):
            return v.as_long()
        raise Unsupported('symbolic offset')

    def assign(self, target, value):
        if isinstance(target, ast.Name):
            self.env[target.id] = value
        elif isinstance(target, ast.Attribute):
            self.expr_obj(target.value).attrs[target.attr] = value
        elif isinstance(target, (ast.Tuple, ast.List)):
            if not isinstance(value, list) or len(value) != len(target.elts):
                raise Unsupported('tuple assignment shape')
            for t, v in zip(target.elts, value):
                self.assign(t, v)
        else:
            raise Unsupported('assignment target')

    def run(self, fn):
        src = ast.parse(textwrap.dedent(inspect.getsource(fn))).body[0]
        params = [a.arg for a in src.args.args]
        if len(params) != 3:
            raise Unsupported('signature')
        frame = Obj()
        self.env = {params[0]: frame, params[1]: 'BUFFER', params[2]: z3.BitVecVal(0, W)}
        ret = None
        for st in src.body:
            if isinstance(st, ast.Expr) and isinstance(getattr(st, 'value', None), ast.Constant):
                continue
            if isinstance(st, ast.Assign) and len(st.targets) == 1:
                self.assign(st.targets[0], self.expr(st.value))
            elif isinstance(st, ast.AugAssign) and isinstance(st.op, ast.BitOr):
                cur = self.expr(st.target)
                self.assign(st.target, cur | self.expr(st.value))
            elif isinstance(st, ast.Return):
                ret = self.expr(st.value) if not isinstance(st.value, ast.Name) else self.env[st.value.id]
            else:
                raise Unsupported('statement ' + type(st).__name__)
        if not isinstance(ret, Obj):
            raise Unsupported('return value')
        out = {}
        for k in ('stream_id', 'frame_type', 'flags_ignore', 'flags_metadata', '_flags_metadata'):
            if k in frame.attrs:
                out[k.lstrip('_')] = frame.attrs[k]
        for k, v in ret.attrs.items():
            out['flags.' + k] = v
        return out


def main():
    ap = argparse.ArgumentParser()
    ap.add_argument('--tier', default='quick')
    ap.add_argument('--seed', type=int, default=0)
    ap.parse_args()
    t0 = time.time()
    out = {'status': 'inconclusive', 'obligations': 1, 'discharged': 0, 'queries': 0, 'solver_s': 0.0, 'replayed': False,
           'samples': []}
    import rsocket.frame as fr
    if not hasattr(fr, 'parse_header_cbitstruct'):
        out['reason'] = 'cbitstruct parser not defined (extension not importable)'
        print(json.dumps(out))
        return
    bs = [z3.BitVec('b%d' % i, 8) for i in range(6)]
    try:
        a = Interp(fr, bs).run(fr.parse_header_native)
        b = Interp(fr, bs).run(fr.parse_header_cbitstruct)
    except Unsupported as e:
        out['reason'] = 'translator refuses current source: %s' % e
        print(json.dumps(out))
        return
    keys = sorted(set(a) | set(b))
    out['fields'] = keys
    if set(a) != set(b):
        out['status'] = 'violation'
        out['detail'] = 'the two parsers set different attributes: %s vs %s' % (sorted(a), sorted(b))
        out['replayed'] = True
        print(json.dumps(out))
        return
    reserved_clear = z3.ULT(bs[0], 128)
    for k in keys:
        x, y = a[k], b[k]
        if isinstance(x, z3.BoolRef) != isinstance(y, z3.BoolRef):
            x = x if isinstance(x, z3.BoolRef) else x != 0
            y = y if isinstance(y, z3.BoolRef) else y != 0
        valid_type = z3.And(z3.ULE(z3.LShR(bs[4], 2), 14), z3.UGE(z3.LShR(bs[4], 2), 1))
        r = 'unsat'
        for extra in (valid_type, z3.BoolVal(True)):        # prefer a counterexample with a defined frame type
            s = z3.Solver()
            s.set('timeout', 60000)
            s.add(reserved_clear, extra, x != y)
            t = time.time()
            r = str(s.check())
            out['solver_s'] += time.time() - t
            out['queries'] += 1
            if r != 'unsat':
                break
        if r == 'sat':
            m = s.model()
            raw = bytes((m[v].as_long() if m[v] is not None else 0) for v in bs)

            def real(fn):
                h = fr.Header()
                try:
                    f = fn(h, raw, 0)
                except Exception as e:      # unknown frame type: compare what was established before
                    return ('raised', type(e).__name__, getattr(h, 'stream_id', None))
                return (h.stream_id, int(h.frame_type), bool(h.flags_ignore), bool(h.flags_metadata),
                        bool(f.flags_follows_resume_respond), bool(f.flags_complete_lease), bool(f.flags_next))
            real1, real2 = real(fr.parse_header_native), real(fr.parse_header_cbitstruct)
            out['status'] = 'violation'
            out['counterexample'] = {'header_bytes': raw.hex(), 'field': k, 'native': list(real1), 'cbitstruct': list(real2)}
            out['replayed'] = real1 != real2
            out['detail'] = 'header %s: native %r vs cbitstruct %r (field %s)' % (raw.hex(), real1, real2, k)
            out['solver_s'] = round(out['solver_s'], 3)
            print(json.dumps(out))
            return
        if r != 'unsat':
            out['reason'] = 'solver answered %s for field %s' % (r, k)
            print(json.dumps(out))
            return
    out['status'] = 'confirmed'
    out['discharged'] = 1
    out['solver_s'] = round(out['solver_s'], 3)
    out['detail'] = 'all %d header fields agree for every 6-byte header with the reserved bit clear (%d z3 queries over 48 symbolic bits)' % (len(keys), out['queries'])
    out['samples'] = [{'lemma': 'forall 6-byte headers (reserved bit clear): parse_header_native == parse_header_cbitstruct', 'fields': keys, 'result': 'unsat per field'}]
    out['wall'] = round(time.time() - t0, 2)
    print(json.dumps(out))


if __name__ == '__main__':
    main()
