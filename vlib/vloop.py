"""VLoop: deterministic virtual-time asyncio event loop (DESIGN §2.2).

FIFO ready queue exactly like BaseEventLoop, timers in deadline order, virtual
clock kept in integer microseconds (may be a symbolic integer under CrossHair).
Real asyncio.Task / asyncio.Future objects are used.
"""
import asyncio
import collections
from asyncio import events


class Livelock(Exception):
    pass


def _engine_artifact(ctx):
    """True for one artefact of the symbolic engine that cannot occur in CPython: asyncio.Queue.get() cleans up a
    cancelled getter with deque.remove(), which raises ValueError when the getter was already woken; under CrossHair
    the deque is a list-backed stand-in whose ValueError message is built with repr(future), that repr comes back
    as a symbolic string, and C code turns it into TypeError('__repr__ returned non-string (type ...SymbolicStr)').
    The task then ends with that TypeError instead of CancelledError (same clean-up, `finally` blocks run) and
    asyncio reports "Task exception was never retrieved".  Plain replays never see it."""
    e = ctx.get('exception')
    if isinstance(e, TypeError) and e.args and isinstance(e.args[0], str):
        return '__repr__ returned non-string' in e.args[0] and 'SymbolicStr' in e.args[0]
    return False


class VLoop(asyncio.AbstractEventLoop):
    def __init__(self):
        self._ready = collections.deque()
        self._timers = []
        self._now = 0  # microseconds
        self._seq = 0
        self.exc = []  # contexts passed to the exception handler
        self.artifacts = 0
        self.steps = 0
        self.livelock = False

    # -- clock -------------------------------------------------------------
    def now_us(self):
        return self._now

    def time(self):
        return self._now / 1000000

    # -- minimal loop API used by asyncio internals ---------------------------
    def get_debug(self):
        return False

    def is_running(self):
        return True

    def is_closed(self):
        return False

    def create_future(self):
        return asyncio.Future(loop=self)

    def create_task(self, coro, *, name=None, context=None):
        return asyncio.Task(coro, loop=self, name=name)

    def call_soon(self, cb, *args, context=None):
        h = asyncio.Handle(cb, args, self, context)
        self._ready.append(h)
        return h

    call_soon_threadsafe = call_soon

    def call_later(self, delay, cb, *args, context=None):
        return self._at_us(self._now + round(delay * 1000000), cb, args, context)

    def call_at(self, when, cb, *args, context=None):
        return self._at_us(round(when * 1000000), cb, args, context)

    def _at_us(self, when_us, cb, args, context):
        h = asyncio.TimerHandle(0.0, cb, args, self, context)
        self._seq += 1
        self._timers.append([when_us, self._seq, h])
        return h

    def _timer_handle_cancelled(self, h):
        pass

    def call_exception_handler(self, ctx):
        if _engine_artifact(ctx):
            self.artifacts += 1
            return
        self.exc.append(ctx)

    def default_exception_handler(self, ctx):
        self.call_exception_handler(ctx)

    # -- driving ---------------------------------------------------------------
    def run_iteration(self):
        """one BaseEventLoop._run_once: exactly the handles ready on entry"""
        n = len(self._ready)
        for _ in range(n):
            h = self._ready.popleft()
            if not h._cancelled:
                h._run()
        self.steps += n
        return n

    def run_ready(self, limit=20000):
        """run callbacks to quiescence; a step cap hit is recorded as livelock"""
        n = 0
        while self._ready:
            h = self._ready.popleft()
            if not h._cancelled:
                h._run()
            n += 1
            if n > limit:
                self.livelock = True
                self._ready.clear()
                break
        self.steps += n
        return n

    def advance_us(self, dt):
        """move the virtual clock forward by dt µs, firing timers in deadline order"""
        target = self._now + dt
        fired = 0
        while True:
            self.run_ready()
            live = [t for t in self._timers if not t[2]._cancelled]
            due = [t for t in live if t[0] <= target]
            if not due:
                self._timers = live
                break
            first = due[0]
            for t in due[1:]:
                if t[0] < first[0] or (t[0] == first[0] and t[1] < first[1]):
                    first = t
            live.remove(first)
            self._timers = live
            if first[0] > self._now:
                self._now = first[0]
            self._ready.append(first[2])
            fired += 1
            if fired > 5000:
                self.livelock = True
                break
        self._now = target
        self.run_ready()

    def advance(self, seconds):
        self.advance_us(round(seconds * 1000000))

    def errors(self):
        """contexts passed to the exception handler so far; garbage is collected first so that contexts reported
        from destructors ("exception was never retrieved", "task was destroyed but it is pending") do not depend
        on when the collector happens to run (traced run vs plain replay)"""
        import gc
        gc.collect()
        return self.exc

    def pending_timers(self):
        return [t for t in self._timers if not t[2]._cancelled]

    def __enter__(self):
        events._set_running_loop(self)
        asyncio.set_event_loop(self)
        return self

    def __exit__(self, *a):
        events._set_running_loop(None)
        asyncio.set_event_loop(None)
