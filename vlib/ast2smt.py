"""E2: source-to-SMT translation of rsocket.datetime_helpers.to_milliseconds (DESIGN §1, E2-int).

The function's CURRENT source is parsed (ast) on every run and translated into integer formulas with an EXACT
encoding of IEEE-754 binary64 round-to-nearest-even:  a float is a set of cases (cond, m, e) meaning m*2^(e-52);
fl(p/q) for an integer expression p >= 0 and a positive constant q is a finite case split over the exponent e with
m = RNE(p*2^(52-e)/q) computed by integer div/mod with an explicit ties-to-even test.  One z3 query per
combination of exponent cases.  Unsupported constructs raise Unsupported (=> inconclusive, never a verdict).

Supported subset: one parameter of type timedelta; .total_seconds(), .days, .seconds, .microseconds; int
constants; + - * // on ints; int / int-constant; float * int-constant; float / int-constant; round(x); int(x);
return of an int expression.
"""
import ast
import inspect
import math

import z3


class Unsupported(Exception):
    pass


def rne_div(num, den):
    """nearest integer to num/den (den > 0 python int), ties to even; num: z3 Int >= 0"""
    q = num / den
    r = num % den
    twice = 2 * r
    up = z3.Or(twice > den, z3.And(twice == den, q % 2 == 1))
    return z3.If(up, q + 1, q)


class IntV:
    def __init__(self, expr, lo, hi):
        self.expr, self.lo, self.hi = expr, lo, hi


class FloatV:
    """cases: list of (cond, m_expr, e) with value m*2^(e-52); zero is (cond, IntVal(0), 0).
    lo/hi: python Fractions/ints bounding the real value (for exponent enumeration)"""

    def __init__(self, cases, lo, hi):
        self.cases, self.lo, self.hi = cases, lo, hi


_DOMAIN = [z3.BoolVal(True)]
PRUNED = [0]


def _feasible(cond):
    s = z3.Solver()
    s.set('timeout', 5000)
    s.add(_DOMAIN[0], cond)
    r = s.check()
    if str(r) == 'unsat':
        PRUNED[0] += 1
        return False
    return True          # sat or unknown: keep the case


def _fl_ratio(p, q, lo, hi, pre_cond=True):
    """cases for fl(p/q), p z3 Int >= 0 with lo <= p/q <= hi known (python numbers), q python int > 0;
    cases infeasible inside the domain are dropped (a dropped case is one z3 proved empty)"""
    return [c for c in _fl_ratio_all(p, q, lo, hi, pre_cond) if _feasible(c[0])]


def _fl_ratio_all(p, q, lo, hi, pre_cond=True):
    cases = [(z3.And(pre_cond, p == 0), z3.IntVal(0), 0)]
    if hi <= 0:
        return cases
    e_lo = math.floor(math.log2(lo)) - 1 if lo > 0 else -1075
    e_lo = max(e_lo, -1022)
    e_hi = math.floor(math.log2(hi)) + 1
    for e in range(e_lo, e_hi + 1):
        if e >= 0:
            cond = z3.And(p >= (2 ** e) * q, p < (2 ** (e + 1)) * q)
        else:
            cond = z3.And(p * (2 ** (-e)) >= q, p * (2 ** (-e - 1)) < q)
        sh = 52 - e
        m = rne_div(p * (2 ** sh), q) if sh >= 0 else rne_div(p, q * (2 ** (-sh)))
        cases.append((z3.And(pre_cond, p > 0, cond), m, e))
    return cases


class Translator:
    def __init__(self, fn, u_lo, u_hi):
        self.src = inspect.getsource(fn)
        tree = ast.parse(self.src)
        self.fdef = tree.body[0]
        if not isinstance(self.fdef, ast.FunctionDef) or len(self.fdef.args.args) != 1:
            raise Unsupported('expected a one-parameter function')
        self.param = self.fdef.args.args[0].arg
        self.U = z3.Int('us')                # the timedelta in integer microseconds
        self.u_lo, self.u_hi = u_lo, u_hi
        _DOMAIN[0] = z3.And(self.U >= u_lo, self.U <= u_hi)

    # ---- expression translation ------------------------------------------------------------------
    def translate(self):
        body = [s for s in self.fdef.body if not (isinstance(s, ast.Expr) and isinstance(getattr(s, 'value', None), ast.Constant))]
        if len(body) != 1 or not isinstance(body[0], ast.Return):
            raise Unsupported('expected a single return statement')
        v = self.expr(body[0].value)
        if isinstance(v, FloatV):
            raise Unsupported('function returns a float')
        return v

    def expr(self, n):
        if isinstance(n, ast.Constant):
            if isinstance(n.value, bool) or not isinstance(n.value, int):
                if isinstance(n.value, float) and n.value == int(n.value):
                    return IntV(z3.IntVal(int(n.value)), int(n.value), int(n.value))
                raise Unsupported('constant %r' % (n.value,))
            return IntV(z3.IntVal(n.value), n.value, n.value)
        if isinstance(n, ast.Attribute) and isinstance(n.value, ast.Name) and n.value.id == self.param:
            U = self.U
            if n.attr == 'microseconds':
                return IntV(U % 10 ** 6, 0, min(self.u_hi, 10 ** 6 - 1))
            if n.attr == 'seconds':
                return IntV((U / 10 ** 6) % 86400, 0, min(self.u_hi // 10 ** 6, 86399))
            if n.attr == 'days':
                return IntV(U / (86400 * 10 ** 6), 0, self.u_hi // (86400 * 10 ** 6))
            raise Unsupported('attribute ' + n.attr)
        if isinstance(n, ast.Call):
            f = n.func
            if (isinstance(f, ast.Attribute) and f.attr == 'total_seconds' and isinstance(f.value, ast.Name)
                    and f.value.id == self.param and not n.args):
                # CPython: ((days*86400 + seconds)*10**6 + microseconds) / 10**6  (int / int, correctly rounded)
                return FloatV(_fl_ratio(self.U, 10 ** 6, max(self.u_lo, 1) / 10 ** 6, self.u_hi / 10 ** 6),
                              self.u_lo / 10 ** 6, self.u_hi / 10 ** 6)
            if isinstance(f, ast.Name) and f.id in ('round', 'int') and len(n.args) == 1 and not n.keywords:
                v = self.expr(n.args[0])
                if isinstance(v, IntV):
                    return v
                return self.to_int(v, f.id)
            raise Unsupported('call ' + ast.dump(f))
        if isinstance(n, ast.BinOp):
            a, b = self.expr(n.left), self.expr(n.right)
            op = n.op
            if isinstance(a, IntV) and isinstance(b, IntV):
                if isinstance(op, ast.Add):
                    return IntV(a.expr + b.expr, a.lo + b.lo, a.hi + b.hi)
                if isinstance(op, ast.Sub):
                    return IntV(a.expr - b.expr, a.lo - b.hi, a.hi - b.lo)
                if isinstance(op, ast.Mult):
                    c = [a.lo * b.lo, a.lo * b.hi, a.hi * b.lo, a.hi * b.hi]
                    return IntV(a.expr * b.expr, min(c), max(c))
                if isinstance(op, ast.FloorDiv) and b.lo == b.hi and b.lo > 0 and a.lo >= 0:
                    return IntV(a.expr / b.lo, a.lo // b.lo, a.hi // b.lo)
                if isinstance(op, ast.Div) and b.lo == b.hi and b.lo > 0 and a.lo >= 0:
                    q = b.lo
                    return FloatV(_fl_ratio(a.expr, q, max(a.lo, 1) / q, a.hi / q), a.lo / q, a.hi / q)
                raise Unsupported('int binop ' + type(op).__name__)
            if isinstance(a, IntV) and isinstance(b, FloatV) and isinstance(op, ast.Mult):
                a, b = b, a
            if isinstance(a, FloatV) and isinstance(b, IntV) and b.lo == b.hi and b.lo > 0:
                c = b.lo
                if c >= 2 ** 53:
                    raise Unsupported('constant not exactly representable')
                if isinstance(op, ast.Mult):
                    return self.scale(a, c, 1)
                if isinstance(op, ast.Div):
                    return self.scale(a, 1, c)
            raise Unsupported('binop %s on %s, %s' % (type(op).__name__, type(a).__name__, type(b).__name__))
        raise Unsupported(ast.dump(n)[:80])

    def scale(self, f, num, den):
        """fl(x * num / den) for the double x (num, den python ints; one of them is 1)"""
        out = []
        for (cond, m, e) in f.cases:
            # x = m * 2^(e-52)  =>  x*num/den = (m*num) / (den * 2^(52-e))
            sh = 52 - e
            if sh >= 0:
                p, q = m * num, den * (2 ** sh)
            else:
                p, q = m * num * (2 ** (-sh)), den
            # m in [2^52, 2^53] (or 0): value of x in [2^e, 2^(e+1)]
            lo = (2.0 ** e) * num / den
            hi = (2.0 ** (e + 1)) * num / den
            out += _fl_ratio(p, q, lo, hi, pre_cond=cond)
        return FloatV(out, f.lo * num / den, f.hi * num / den)

    # convenience used by the checker: piecewise result as list of (cond, int expr)


def piecewise(fn, u_lo, u_hi):
    """returns (U, [(cond, result_expr)], source) for the current source of fn; the conds partition the domain.
    Only top-level shapes  INT_EXPR  where floats are consumed by round()/int() are supported."""
    t = Translator(fn, u_lo, u_hi)
    body = [s for s in t.fdef.body if not (isinstance(s, ast.Expr) and isinstance(getattr(s, 'value', None), ast.Constant))]
    if len(body) != 1 or not isinstance(body[0], ast.Return):
        raise Unsupported('expected a single return statement')

    # evaluate with an environment of case lists: every float->int conversion contributes a case split
    def ev(n):
        """returns list of (cond, IntV) alternatives"""
        if isinstance(n, ast.Call) and isinstance(n.func, ast.Name) and n.func.id in ('round', 'int') and len(n.args) == 1:
            v = t.expr(n.args[0])
            if isinstance(v, IntV):
                return [(z3.BoolVal(True), v)]
            alts = []
            for (cond, m, e) in v.cases:
                sh = 52 - e
                if sh <= 0:
                    val = m * (2 ** (-sh))
                elif n.func.id == 'round':
                    val = rne_div(m, 2 ** sh)
                else:
                    val = m / (2 ** sh)
                alts.append((cond, IntV(val, 0, 0)))
            return alts
        if isinstance(n, ast.BinOp) and isinstance(n.op, (ast.Add, ast.Sub, ast.Mult)):
            la, lb = ev(n.left), ev(n.right)
            out = []
            for ca, a in la:
                for cb, b in lb:
                    if isinstance(n.op, ast.Add):
                        r = a.expr + b.expr
                    elif isinstance(n.op, ast.Sub):
                        r = a.expr - b.expr
                    else:
                        r = a.expr * b.expr
                    out.append((z3.And(ca, cb), IntV(r, 0, 0)))
            return out
        v = t.expr(n)
        if isinstance(v, FloatV):
            raise Unsupported('float used as an integer result')
        return [(z3.BoolVal(True), v)]

    alts = [(c, v) for c, v in ev(body[0].value) if _feasible(c)]
    return t.U, [(c, v.expr) for c, v in alts], t.src


def ground_eval(U, alts, value):
    """evaluate the emitted formula on a concrete microsecond value (translator validation)"""
    sub = (U, z3.IntVal(value))
    hit = None
    for cond, expr in alts:
        c = z3.simplify(z3.substitute(cond, sub))
        if z3.is_true(c):
            r = z3.simplify(z3.substitute(expr, sub)).as_long()
            if hit is not None and hit != r:
                raise AssertionError('overlapping cases disagree')
            hit = r
    return hit
