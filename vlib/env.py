"""Execution environment for harness modules (DESIGN §2.3): shims S1-S6.

Import this module FIRST in every harness.  Behaviour depends on
  VERIF_BACKEND = native | model   which bit-helper back end rsocket selects
  VERIF_REPLAY  = 1                plain-CPython replay: no S2-S4, real cbitstruct
  VERIF_PART    = json             partition parameters of this process
"""
import json
import logging
import os
import sys

REPLAY = os.environ.get('VERIF_REPLAY') == '1'
BACKEND = os.environ.get('VERIF_BACKEND', 'native')
PART = json.loads(os.environ.get('VERIF_PART') or '{}')
REPO = os.environ.get('VERIF_REPO', '/repo')

if REPO not in sys.path:
    sys.path.insert(0, REPO)

# S1 -------------------------------------------------------------------------
logging.disable(logging.CRITICAL)


class _NullLogger:
    """S1: logging is not the subject of any property; rsocket.logger.logger() does a logging.getLogger() lookup on
    every call (10% of an endpoint harness under the tracer) - hand out one inert object instead"""

    def _noop(self, *a, **kw):
        pass

    debug = info = warning = error = exception = critical = log = _noop

    def isEnabledFor(self, level):
        return False


_NULL_LOGGER = _NullLogger()


def _null_logger():
    return _NULL_LOGGER


def _patch_loggers():
    import rsocket.logger as _lg
    orig = _lg.logger
    for name, mod in list(sys.modules.items()):
        if (name == 'rsocket' or name.startswith('rsocket.')) and mod is not None and getattr(mod, 'logger', None) is orig:
            mod.logger = _null_logger
    _lg.logger = _null_logger          # modules imported later bind the inert one directly

# back end selection (before rsocket is imported) ------------------------------
assert 'rsocket' not in sys.modules or os.environ.get('VERIF_ALLOW_PREIMPORT'), 'vlib.env must be imported before rsocket'
if BACKEND == 'native':
    sys.modules['cbitstruct'] = None
elif BACKEND == 'model':
    if not REPLAY:
        import types
        from vlib import cbmodel
        _m = types.ModuleType('cbitstruct')
        _m.unpack_from = cbmodel.unpack_from
        _m.unpack = cbmodel.unpack
        _m.pack = cbmodel.pack
        sys.modules['cbitstruct'] = _m
    # replay with BACKEND=model uses the real compiled extension
else:
    raise RuntimeError('bad VERIF_BACKEND')

import struct as _struct

if not REPLAY:
    # S2 ---------------------------------------------------------------------
    def _unpack_from(fmt, /, buffer, offset=0):
        size = _struct.calcsize(fmt)
        if offset < 0:
            offset += len(buffer)
        if len(buffer) - offset < size:
            raise _struct.error('unpack_from requires a buffer of at least %d bytes for unpacking %d bytes at offset %d'
                                % (size + offset, size, offset))
        return _struct.unpack(fmt, buffer[offset:offset + size])

    _struct.unpack_from = _unpack_from

import builtins as _builtins


def _bytearray(*a):
    if len(a) == 1 and isinstance(a[0], int):
        return _builtins.bytearray(bytes(a[0]))
    return _builtins.bytearray(*a)


class PyBytesReader:
    """S4: stand-in for io.BytesIO(read-only use): read(n) = slice + advance."""

    def __init__(self, data=b''):
        self._d = b'' if data is None else data
        self._p = 0

    def read(self, n=-1):
        d = self._d
        if n is None or n < 0:
            out = d[self._p:]
            self._p = len(d)
            return out
        out = d[self._p:self._p + n]
        self._p += len(out)
        return out


import rsocket.frame  # noqa: E402
import rsocket.frame_fragmenter  # noqa: E402
import rsocket.extensions.authentication  # noqa: E402

if not REPLAY:
    # S3
    rsocket.frame.bytearray = _bytearray
    rsocket.extensions.authentication.bytearray = _bytearray
    # S4
    rsocket.frame_fragmenter.BytesIO = PyBytesReader

if not REPLAY:
    import rsocket.rsocket_client, rsocket.rsocket_server, rsocket.routing.routing_request_handler  # noqa: E402,F401
    _patch_loggers()

_expected = {'native': 'parse_header_native', 'model': 'parse_header_cbitstruct'}[BACKEND]
assert rsocket.frame.ParseHelper.parse_header.__name__ == _expected, (
    'back end selection failed', rsocket.frame.ParseHelper.parse_header.__name__)


def part(key, default=None):
    return PART.get(key, default)
