def _install():
    import atexit, time, sys, z3
    stats = {'checks': 0, 'time': 0.0}
    orig = z3.Solver.check
    pc = time.perf_counter

    def check(self, *a):
        t = pc()
        try:
            return orig(self, *a)
        finally:
            stats['checks'] += 1
            stats['time'] += pc() - t
    z3.Solver.check = check

    def report(stats=stats, w=sys.stderr.write):
        w('SOLVER_STATS checks=%d time=%.3f\n' % (stats['checks'], stats['time']))
    atexit.register(report)


_install()
