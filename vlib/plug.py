def _install():
    import atexit, time, sys, z3
    stats = {'checks': 0, 'time': 0.0}
    orig = z3.Solver.check
    pc = time.perf_counter

    def check(self, *a):
        t = pc()
        try:
            return orig(self, *a)
        finally:
            stats['checks'] += 1
            stats['time'] += pc() - t
    z3.Solver.check = check

    def report(stats=stats, w=sys.stderr.write):
        w('SOLVER_STATS checks=%d time=%.3f\n' % (stats['checks'], stats['time']))
    atexit.register(report)


def _fast_weakref():
    """CrossHair forces a full gc.collect() on every weakref dereference to make weak references deterministic
    (22% of the run time of an endpoint harness, asyncio dereferences them constantly).  The harnesses hold strong
    references to every object they observe, so the collection changes nothing they can see: drop it."""
    from weakref import ref
    from crosshair import core

    def _ref_call(r):
        if not isinstance(r, ref):
            raise TypeError
        return r()
    if ref.__call__ in core._PATCH_REGISTRATIONS:
        core._PATCH_REGISTRATIONS[ref.__call__] = _ref_call


_install()
_fast_weakref()
