"""Replay a counterexample in plain CPython on the real, unshimmed modules (VERIF_REPLAY=1).

usage: python -m vlib.replay <harness path> <func> <call expression>
prints {"verdict": <return value>, "exception": <type: msg>|null, "in_repo": bool}
"""
import importlib.util
import json
import os
import sys
import traceback


def load(path):
    name = 'replay_' + os.path.basename(path)[:-3]
    spec = importlib.util.spec_from_file_location(name, path)
    mod = importlib.util.module_from_spec(spec)
    sys.modules[name] = mod
    spec.loader.exec_module(mod)
    return mod


def main():
    assert os.environ.get('VERIF_REPLAY') == '1'
    path, func, call = sys.argv[1], sys.argv[2], sys.argv[3]
    mod = load(path)
    fn = getattr(mod, func)
    ns = dict(vars(mod))
    ns[func] = fn
    out = {'verdict': None, 'exception': None, 'in_repo': False}
    try:
        v = eval(call, ns)
        out['verdict'] = v if isinstance(v, (str, bool, int, type(None))) else repr(v)
    except BaseException as e:  # noqa
        out['exception'] = '%s: %s' % (type(e).__name__, str(e)[:200])
        tb = traceback.extract_tb(e.__traceback__)
        repo = os.environ.get('VERIF_REPO', '/repo')
        out['in_repo'] = bool(tb) and tb[-1].filename.startswith(repo)
        out['trace'] = ['%s:%d %s' % (os.path.basename(f.filename), f.lineno, f.name) for f in tb[-6:]]
    if os.environ.get('VERIF_REPLAY_VERBOSE') and hasattr(mod, 'LAST_DIAG'):
        out['diag'] = mod.LAST_DIAG
    print(json.dumps(out, default=repr))


if __name__ == '__main__':
    main()
