"""Translation validation of the stubs S2 (struct.unpack_from), S4 (BytesIO reader) and S5 (cbitstruct model)
against the real CPython / compiled implementations.  Prints one JSON line; status 'confirmed' iff no mismatch."""
import argparse
import io
import json
import random
import struct
import sys

ap = argparse.ArgumentParser()
ap.add_argument('--tier', default='quick')
ap.add_argument('--seed', type=int, default=0)
a = ap.parse_args()
rnd = random.Random(1234 + a.seed)
N = 20000 if a.tier == 'quick' else 80000
mism = []
count = 0

# ---- S5
import cbitstruct as real  # the compiled extension in /venv
from vlib import cbmodel as model

FMTS = ['u1u31u6b1b1b1b1b1', 'u1u7', 'u1u63', 'u24']
NB = {'u1u31u6b1b1b1b1b1': 6, 'u1u7': 1, 'u1u63': 8, 'u24': 3}


def both(fn_real, fn_model, *args):
    try:
        r = ('ok', fn_real(*args))
    except Exception as e:
        r = ('exc', type(e).__name__)
    try:
        m = ('ok', fn_model(*args))
    except Exception as e:
        m = ('exc', type(e).__name__)
    return r, m


boundary = [b'\x00' * 8, b'\xff' * 8, b'\x80' + b'\x00' * 7, b'\x7f' + b'\xff' * 7, b'\x00\x00\x00\x01\x28\x00\x00\x00',
            b'\x00\x00\x00\x00\xff\xff\x00\x00', b'\x01\x02\x03', b'', b'\x00', b'\xff', b'\x00\x00']
for fmt in FMTS:
    vecs = list(boundary) + [bytes(rnd.randrange(256) for _ in range(rnd.choice([0, 1, 2, 3, 5, 6, 7, 8, 9, 12])))
                             for _ in range(N // 8)]
    for buf in vecs:
        for off in (0, 1, 2):
            count += 1
            r, m = both(real.unpack_from, model.unpack_from, fmt, buf, off)
            if r != m:
                mism.append(('unpack_from', fmt, buf.hex(), off, r, m))
        count += 1
        r, m = both(real.unpack, model.unpack, fmt, buf)
        if r != m and not (r[0] == 'ok' and len(buf) > NB[fmt]):
            mism.append(('unpack', fmt, buf.hex(), r, m))
for v in [0, 1, 2 ** 24 - 1, 2 ** 24, -1, 255, 256, 65535, 65536] + [rnd.randrange(2 ** 24) for _ in range(N // 8)]:
    count += 1
    r, m = both(real.pack, model.pack, 'u24', v)
    if r != m:
        mism.append(('pack u24', v, r, m))
for v in [0, 1, 2 ** 63 - 1, 2 ** 63, -1, 2 ** 62, 2 ** 32] + [rnd.randrange(2 ** 63) for _ in range(N // 8)]:
    count += 1
    r, m = both(real.pack, model.pack, 'u1u63', 0, v)
    if r != m:
        mism.append(('pack u1u63', v, r, m))

# ---- S2: the shim's formula vs CPython's struct.unpack_from on the (fmt, offset, length) triples the code base uses
FM2 = ['>IBB', '>HHII', '>H', '>II', '>I', 'b', '>HH', '>B', '>Q']


def shim_unpack_from(fmt, buffer, offset=0):
    size = struct.calcsize(fmt)
    if offset < 0:
        offset += len(buffer)
    if len(buffer) - offset < size:
        raise struct.error('short')
    return struct.unpack(fmt, buffer[offset:offset + size])


for fmt in FM2:
    size = struct.calcsize(fmt)
    for length in range(0, size + 9):
        for off in range(0, length + 2):
            buf = bytes(rnd.randrange(256) for _ in range(length))
            count += 1
            r, m = both(struct.unpack_from, shim_unpack_from, fmt, buf, off)
            if r != m:
                mism.append(('S2', fmt, length, off, r, m))

# ---- S4
from vlib.env import PyBytesReader  # noqa: E402  (imports rsocket with the native back end: harmless here)
for _ in range(N // 20):
    data = bytes(rnd.randrange(256) for _ in range(rnd.randrange(0, 300)))
    r1, r2 = io.BytesIO(data), PyBytesReader(data)
    for _ in range(8):
        n = rnd.choice([0, 1, 3, 55, 58, 64, 100, 1000])
        count += 1
        if r1.read(n) != r2.read(n):
            mism.append(('S4', len(data), n))
r1, r2 = io.BytesIO(None or b''), PyBytesReader(None)
if r1.read(5) != r2.read(5):
    mism.append(('S4 none',))

print(json.dumps({'status': 'confirmed' if not mism else 'violation', 'replayed': False, 'obligations': 1,
                  'discharged': 0 if mism else 1,
                  'detail': ('%d stub/real comparisons, %d mismatches %s' % (count, len(mism), mism[:3])),
                  'samples': [{'stub_validation_vectors': count}]}))
