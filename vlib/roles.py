"""Wire-legality automaton for the frames an endpoint EMITS, judged against what it had received (C08)."""
from rsocket.frame import (PayloadFrame, ErrorFrame, CancelFrame, RequestNFrame, RequestResponseFrame,
                           RequestStreamFrame, RequestChannelFrame, RequestFireAndForgetFrame, SetupFrame,
                           KeepAliveFrame, LeaseFrame, MetadataPushFrame, ResumeFrame, ResumeOKFrame)

REQ = {RequestResponseFrame: 'rr', RequestStreamFrame: 'rs', RequestChannelFrame: 'ch', RequestFireAndForgetFrame: 'fnf'}
CONN_ONLY = (SetupFrame, KeepAliveFrame, LeaseFrame, MetadataPushFrame, ResumeFrame, ResumeOKFrame)

ALLOWED = {
    ('rr', 'req'): (CancelFrame,),
    ('rs', 'req'): (RequestNFrame, CancelFrame),
    ('ch', 'req'): (PayloadFrame, RequestNFrame, CancelFrame, ErrorFrame),
    ('fnf', 'req'): (),
    ('rr', 'resp'): (PayloadFrame, ErrorFrame),
    ('rs', 'resp'): (PayloadFrame, ErrorFrame),
    ('ch', 'resp'): (PayloadFrame, RequestNFrame, CancelFrame, ErrorFrame),
    ('fnf', 'resp'): (),
}


def wire_devs(trace, is_client):
    """trace: [('in'|'out', frame)] in global order.  Returns the list of deviation signatures."""
    devs = []
    own_parity = 1 if is_client else 0
    st = {}        # stream id -> dict(model, side, own_complete, own_error, own_cancel, peer_complete, peer_error, midfrag)
    n_out = 0
    setup_seen = 0
    for d, f in trace:
        sid = f.stream_id
        if d == 'in':
            if sid != 0:
                if type(f) in REQ and sid not in st and (sid & 1) != own_parity:
                    st[sid] = dict(model=REQ[type(f)], side='resp', own_complete=False, own_error=False, own_cancel=False,
                                   peer_complete=(REQ[type(f)] in ('rr', 'rs', 'fnf')) or bool(getattr(f, 'flags_complete', False)),
                                   peer_terminal=False, midfrag=False, dead=False)
                elif sid in st:
                    s = st[sid]
                    if isinstance(f, PayloadFrame) and f.flags_complete and not f.flags_follows:
                        s['peer_complete'] = True
                    if isinstance(f, ErrorFrame):
                        s['peer_terminal'] = True
                    if isinstance(f, CancelFrame) and s['side'] == 'resp':
                        s['peer_terminal'] = True
            continue
        n_out += 1
        if is_client:
            if n_out == 1 and not isinstance(f, SetupFrame):
                devs.append('first-client-frame-not-SETUP:' + type(f).__name__)
            if isinstance(f, SetupFrame):
                setup_seen += 1
                if setup_seen > 1:
                    devs.append('SETUP-sent-twice')
        elif isinstance(f, SetupFrame):
            devs.append('server-sent-SETUP')
        if isinstance(f, CONN_ONLY):
            if sid != 0:
                devs.append('connection-frame-on-nonzero-stream:' + type(f).__name__)
            continue
        if sid == 0:
            if not isinstance(f, ErrorFrame):
                devs.append('stream-frame-on-stream-0:' + type(f).__name__)
            continue
        s = st.get(sid)
        if s is None:
            if (sid & 1) != own_parity:
                devs.append('frame-on-peer-parity-stream-never-requested:' + type(f).__name__)
                continue
            if type(f) not in REQ:
                devs.append('C08:new-stream-does-not-begin-with-a-request-frame:' + type(f).__name__)
                st[sid] = dict(model='?', side='req', own_complete=False, own_error=False, own_cancel=False,
                               peer_complete=False, peer_terminal=False, midfrag=False, dead=False, unopened=True)
                s = st[sid]
                if isinstance(f, CancelFrame):
                    s['own_cancel'] = True
                continue
            model = REQ[type(f)]
            if f.flags_follows and getattr(f, 'flags_complete', False):
                devs.append('C08:COMPLETE-flag-on-a-fragment-that-is-followed-by-more-payload')
            st[sid] = dict(model=model, side='req', own_complete=(model in ('rr', 'rs', 'fnf')) or bool(getattr(f, 'flags_complete', False)),
                           own_error=False, own_cancel=False, peer_complete=False, peer_terminal=False,
                           midfrag=bool(f.flags_follows), dead=False)
            if model in ('rs', 'ch') and not (1 <= f.initial_request_n <= 0x7FFFFFFF):
                devs.append('initial-request-n-not-positive')
            continue
        if s.get('unopened'):
            if type(f) in REQ:
                s.pop('unopened')
                s['model'] = REQ[type(f)]
            continue
        model, side = s['model'], s['side']
        # continuation fragments of the request / of a payload
        if s['midfrag']:
            if not isinstance(f, PayloadFrame):
                devs.append('frame-between-fragments-of-own-frame:' + type(f).__name__)
            else:
                s['midfrag'] = bool(f.flags_follows)
                if f.flags_follows and f.flags_complete:
                    # COMPLETE closes the sending direction: it belongs on the last fragment only
                    devs.append('C08:COMPLETE-flag-on-a-fragment-that-is-followed-by-more-payload')
                if not f.flags_follows and f.flags_complete and (model == 'ch' or side == 'resp'):
                    s['own_complete'] = True
            continue
        if type(f) in REQ:
            devs.append('second-request-frame-on-open-stream')
            continue
        if s['own_error']:
            devs.append('C08:%s:%s:frame-after-own-ERROR' % (model, side) + ('' if model == 'ch' else ':' + type(f).__name__))
            continue
        if s['own_cancel'] and side == 'req':
            devs.append('C08:%s:req:frame-after-own-CANCEL' % model + ('' if model == 'ch' else ':' + type(f).__name__))
            continue
        if s['own_complete'] and (s['peer_complete'] or (side == 'req' and s['peer_terminal'])):
            devs.append('C08:%s:%s:frame-after-both-directions-completed:%s' % (model, side, type(f).__name__))
            continue
        if not isinstance(f, ALLOWED[(model, side)]):
            devs.append('C08:%s:%s:frame-type-not-allowed-for-role:%s' % (model, side, type(f).__name__))
            continue
        if isinstance(f, PayloadFrame):
            if s['own_complete']:
                devs.append('C08:%s:%s:PAYLOAD-after-own-COMPLETE' % (model, side))
            if f.flags_follows:
                s['midfrag'] = True
                if f.flags_complete:
                    devs.append('C08:COMPLETE-flag-on-a-fragment-that-is-followed-by-more-payload')
            elif f.flags_complete:
                s['own_complete'] = True
        elif isinstance(f, ErrorFrame):
            s['own_error'] = True
        elif isinstance(f, CancelFrame):
            if s['own_cancel']:
                devs.append('C08:%s:%s:second-CANCEL' % (model, side))
            s['own_cancel'] = True
        elif isinstance(f, RequestNFrame):
            if not (1 <= f.request_n <= 0x7FFFFFFF):
                devs.append('REQUEST_N-not-positive')
            if s['peer_complete'] or s['peer_terminal']:
                pass      # credit for a direction that is already closed is useless but harmless; not asserted
    return devs
