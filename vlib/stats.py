"""Per-path statistics noted by harness bodies; dumped to stderr at process exit as one PATH_STATS line
(CrossHair's audit wall forbids file writes during analysis)."""
import atexit
import json
import os
import sys

_ON = bool(os.environ.get('VERIF_STATS'))
try:
    from crosshair.tracers import NoTracing as _NoTracing
except Exception:  # replay / plain python
    import contextlib
    _NoTracing = contextlib.nullcontext

_PRIM = (int, str, bool, float, type(None), bytes)


def _concrete(x):
    t = type(x)
    if t in _PRIM:
        return True
    if t in (list, tuple):
        return all(_concrete(y) for y in x)
    if t is dict:
        return all(type(k) is str and _concrete(v) for k, v in x.items())
    return False

_S = {'paths': 0, 'nt': 0, 'keys': set(), 'samples': []}


def _clean(x):
    """replace every leaf that is not a plain concrete value (i.e. still symbolic on this path) by '*'"""
    t = type(x)
    if t in _PRIM:
        return x
    if t in (list, tuple):
        return [_clean(y) for y in x]
    if t is dict:
        return {(k if type(k) is str else '*'): _clean(v) for k, v in x.items()}
    return '*'


def note(nontrivial, sample=None):
    """nontrivial: plain bool/int computed from concrete values only (list lengths etc.).
    sample: small JSON-able description made of concrete values only."""
    if not _ON:
        return
    with _NoTracing():
        _note(nontrivial, sample)


def _note(nontrivial, sample):
    try:
        _S['paths'] += 1
        if type(nontrivial) not in (bool, int):
            nontrivial = True
        if sample is not None:
            sample = _clean(sample)
        if nontrivial:
            if sample is not None:
                key = json.dumps(sample, sort_keys=True, default=repr)
                if key in _S['keys']:
                    return
                if len(_S['keys']) < 5000:
                    _S['keys'].add(key)
                if len(_S['samples']) < 4:
                    _S['samples'].append(key)
            _S['nt'] += 1
    except Exception:
        pass


def _dump(w=sys.stderr.write, s=_S, dumps=json.dumps):
    w('PATH_STATS %s\n' % dumps({'paths': s['paths'], 'nt': s['nt'], 'samples': s['samples']}))


if _ON:
    atexit.register(_dump)
