"""E2 check of rsocket.datetime_helpers.to_milliseconds: prints one JSON line (see vlib.engine.Script)."""
import argparse
import json
import random
import sys
import time
from datetime import timedelta

import z3

sys.modules['cbitstruct'] = None
from rsocket.datetime_helpers import to_milliseconds  # noqa: E402
from vlib.ast2smt import piecewise, ground_eval, Unsupported  # noqa: E402

ap = argparse.ArgumentParser()
ap.add_argument('--tier', default='quick')
ap.add_argument('--seed', type=int, default=0)
a = ap.parse_args()

KMAX = 2 ** 31 - 1                    # milliseconds that fit the 31-bit wire fields
U_HI = KMAX * 1000 + 999
t0 = time.time()
out = {'status': 'inconclusive', 'obligations': 3, 'discharged': 0, 'queries': 0, 'solver_s': 0.0, 'replayed': False,
       'samples': []}


def finish():
    out['wall'] = round(time.time() - t0, 2)
    print(json.dumps(out))
    sys.exit(0)


try:
    U, alts, src = piecewise(to_milliseconds, 0, U_HI)
except Unsupported as e:
    out['reason'] = 'translator refuses current source: %s' % e
    finish()
out['source'] = src.strip()
out['cases'] = len(alts)


def real(us):
    return to_milliseconds(timedelta(microseconds=us))


# ---- translator validation: real function vs ground evaluation of the emitted formula
rnd = random.Random(99 + a.seed)
vec = [0, 1, 499, 500, 501, 999, 1000, 1001, 1499, 1500, 2500, 3500, 500000, 999999, 1000000, 1500000, 4097000,
       (2 ** 17 + 1) * 1000, 600000000, U_HI, U_HI - 999, 2 ** 31, 2 ** 32 + 1, 2 ** 40 + 12345]
vec += [rnd.randrange(0, U_HI + 1) for _ in range(60)] + [1000 * rnd.randrange(0, KMAX + 1) for _ in range(40)]
mism = []
for v in vec:
    g = ground_eval(U, alts, v)
    if g != real(v):
        mism.append((v, g, real(v)))
out['translator_validation'] = {'vectors': len(vec), 'mismatches': len(mism)}
if mism:
    out['reason'] = 'translator validation failed: %r' % (mism[:3],)
    finish()


def query(extra, negated_prop, label):
    """unsat for every case => holds; sat => model"""
    for cond, expr in alts:
        s = z3.Solver()
        s.set('timeout', 120000)
        s.add(U >= 0, U <= U_HI, cond, *extra, negated_prop(expr))
        t = time.time()
        r = s.check()
        out['solver_s'] += time.time() - t
        out['queries'] += 1
        if str(r) == 'sat':
            return 'sat', s.model()[U].as_long()
        if str(r) != 'unsat':
            return 'unknown', None
    return 'unsat', None


k = z3.Int('k')
results = {}
# O0: the cases cover the domain
s = z3.Solver()
s.set('timeout', 120000)
s.add(U >= 0, U <= U_HI, z3.Not(z3.Or(*[c for c, _ in alts])))
t = time.time()
r0 = str(s.check())
out['solver_s'] += time.time() - t
out['queries'] += 1
results['cases-cover-domain'] = r0
# O1: whole milliseconds map to exactly that many milliseconds
results['whole-ms'] = query([U == 1000 * k, k >= 0, k <= KMAX], lambda e: e != k, 'whole-ms')
# O2: any period maps to a nearest millisecond
results['nearest-ms'] = query([], lambda e: z3.Or(1000 * e - U > 500, U - 1000 * e > 500), 'nearest-ms')
out['detail'] = {k_: (v if isinstance(v, str) else list(v)) for k_, v in results.items()}
out['solver_s'] = round(out['solver_s'], 3)

viol = None
for name in ('whole-ms', 'nearest-ms'):
    st, model = results[name]
    if st == 'sat':
        viol = (name, model)
        break
if viol:
    name, us = viol
    got = real(us)
    ok = (got * 1000 == us) if name == 'whole-ms' else abs(got * 1000 - us) <= 500
    gv = ground_eval(U, alts, us)
    out['counterexample'] = {'obligation': name, 'timedelta_microseconds': us, 'to_milliseconds': got, 'formula': gv}
    out['replayed'] = (not ok) and gv == got
    out['status'] = 'violation'
    out['detail'] = 'to_milliseconds(timedelta(microseconds=%d)) == %d (%s)' % (us, got, name)
    finish()
if r0 == 'unsat' and all(results[n][0] == 'unsat' for n in ('whole-ms', 'nearest-ms')):
    out['status'] = 'confirmed'
    out['discharged'] = 3
    out['samples'] = [{'obligation': 'forall k in [0,2^31-1]: to_milliseconds(timedelta(milliseconds=k)) == k', 'result': 'unsat in every exponent case'},
                      {'obligation': 'forall us in [0,%d]: |1000*to_milliseconds - us| <= 500' % U_HI, 'result': 'unsat in every exponent case'}]
    out['detail'] = '%d exponent-case combinations, %d z3 queries, all unsat' % (len(alts), out['queries'])
else:
    out['reason'] = 'solver answered unknown: %r' % (results,)
finish()
