"""Opaque payload stand-in for C03: a byte range [off, off+n) of an original buffer `tag`.

len() is a (possibly symbolic) integer, slices are sub-spans, `+` FAILS unless the right operand starts exactly
where the left one ends - so any loss, duplication, reordering or metadata/data mix-up during
fragmentation/reassembly makes a merge fail or the final span differ."""


class SpanError(AssertionError):
    pass


class Span:
    __slots__ = ('tag', 'off', 'n')

    def __init__(self, tag, off, n):
        self.tag = tag
        self.off = off
        self.n = n

    def __len__(self):
        return self.n

    def __bool__(self):
        if self.n > 0:
            return True
        return False

    def __getitem__(self, sl):
        if not isinstance(sl, slice) or sl.step is not None:
            raise SpanError('only plain slices')
        start = 0 if sl.start is None else sl.start
        stop = self.n if sl.stop is None else sl.stop
        if start < 0 or stop < 0:
            raise SpanError('negative slice bound')
        if start > self.n:
            start = self.n
        if stop > self.n:
            stop = self.n
        if stop < start:
            stop = start
        return Span(self.tag, self.off + start, stop - start)

    def __add__(self, other):
        if isinstance(other, Span):
            if other.n == 0:
                return self
            if self.n == 0:
                return other
            if other.tag != self.tag or other.off != self.off + self.n:
                raise SpanError('non-contiguous merge')
            return Span(self.tag, self.off, self.n + other.n)
        if len(other) == 0:
            return self
        raise SpanError('merge with foreign bytes')

    def __radd__(self, other):
        if len(other) == 0:
            return self
        raise SpanError('merge with foreign bytes')

    def __repr__(self):
        return 'Span(%r,%r,%r)' % (self.tag, self.off, self.n)


class SpanReader:
    """reader over a Span (S4 counterpart for spans)"""

    def __init__(self, span):
        self._s = span
        self._p = 0

    def read(self, n):
        out = self._s[self._p:self._p + n]
        self._p = self._p + len(out)
        return out
