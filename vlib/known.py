"""Known findings (DESIGN §3.6).  File format, one entry per line:

  known: property=<id> key=<signature> witness=<file under known_witnesses/> :: <what fails>
  fixed: property=<id> <commit> <what failed>

Read-only at run time.
"""
import os

ROOT = os.path.dirname(os.path.dirname(os.path.abspath(__file__)))
PATH = os.path.join(ROOT, 'known_findings.txt')


def entries():
    out = []
    if not os.path.exists(PATH):
        return out
    for line in open(PATH):
        line = line.strip()
        if not line or line.startswith('#'):
            continue
        if line.startswith('known:'):
            head, _, text = line[len('known:'):].partition('::')
            kv = dict(tok.split('=', 1) for tok in head.split() if '=' in tok)
            out.append({'kind': 'known', 'property': kv.get('property'), 'key': kv.get('key'),
                        'witness': kv.get('witness'), 'text': text.strip()})
        elif line.startswith('fixed:'):
            rest = line[len('fixed:'):].split()
            kv = dict(tok.split('=', 1) for tok in rest if '=' in tok)
            out.append({'kind': 'fixed', 'property': kv.get('property'), 'text': line})
    return out


def allowed(prop):
    """set of verdicts a condition of property `prop` may return without being a violation"""
    s = {''}
    for e in entries():
        if e['kind'] == 'known' and e['property'] == prop and e['key']:
            s.add(e['key'])
    return frozenset(s)


def pick(devs, allowed_set):
    """devs: list of deviation signatures observed on a path (in order).
    Returns the first one that is NOT allowed, else the first allowed one, else ''."""
    first_known = ''
    for d in devs:
        if d not in allowed_set:
            return d
        if not first_known:
            first_known = d
    return first_known
