"""Simulated transports, virtual wall clock, recording application (DESIGN S6-S8).

Import vlib.env before this module.
"""
import asyncio
from datetime import datetime, timedelta

import vlib.env  # noqa: F401  (shims first)
from vlib.vloop import VLoop

import rsocket.lease as _rl
import rsocket.rsocket_client as _rc
from reactivestreams.subscriber import Subscriber
from reactivestreams.publisher import Publisher
from reactivestreams.subscription import Subscription
from rsocket.frame import (parse_or_ignore, InvalidFrame, Frame, serialize_with_frame_size_header,
                           PayloadFrame, ErrorFrame, CancelFrame, RequestNFrame, SetupFrame, KeepAliveFrame,
                           LeaseFrame, RequestResponseFrame, RequestStreamFrame, RequestChannelFrame,
                           RequestFireAndForgetFrame, MetadataPushFrame, ResumeFrame, ResumeOKFrame)
from rsocket.payload import Payload
from rsocket.request_handler import BaseRequestHandler
from rsocket.transports.abstract_messaging import AbstractMessagingTransport
from rsocket.transports.tcp import TransportTCP
from rsocket.transports.transport import Transport

EPOCH = datetime(2020, 1, 1)


def _td_us(x):
    if isinstance(x, VDelta):
        return x.us
    return (x.days * 86400 + x.seconds) * 1000000 + x.microseconds


class VDelta:
    """S6: a duration as integer microseconds (exactly what a timedelta is), without datetime's field
    normalisation - a symbolic timedelta costs tens of solver-seconds per path, an integer costs nothing"""
    __slots__ = ('us',)

    def __init__(self, us):
        self.us = us

    def total_seconds(self):
        return self.us / 1000000

    def __lt__(self, o):
        return self.us < _td_us(o)

    def __le__(self, o):
        return self.us <= _td_us(o)

    def __gt__(self, o):
        return self.us > _td_us(o)

    def __ge__(self, o):
        return self.us >= _td_us(o)

    def __eq__(self, o):
        return isinstance(o, (VDelta, timedelta)) and self.us == _td_us(o)

    def __hash__(self):
        return 0

    def __str__(self):
        return 'VDelta(us)'


class VTime:
    """S6: an instant as integer microseconds of the virtual clock"""
    __slots__ = ('us',)

    def __init__(self, us):
        self.us = us

    def __add__(self, d):
        return VTime(self.us + _td_us(d))

    __radd__ = __add__

    def __sub__(self, o):
        if isinstance(o, VTime):
            return VDelta(self.us - o.us)
        return VTime(self.us - _td_us(o))

    def __lt__(self, o):
        return self.us < o.us

    def __le__(self, o):
        return self.us <= o.us

    def __gt__(self, o):
        return self.us > o.us

    def __ge__(self, o):
        return self.us >= o.us

    def __eq__(self, o):
        return isinstance(o, VTime) and self.us == o.us

    def __hash__(self):
        return 0


def _vtimedelta(*a, **kw):
    """stand-in for `timedelta` where the library builds a duration from a received integer:
    timedelta(milliseconds=n) -> VDelta(n*1000); anything else is the real timedelta"""
    if not a and list(kw) == ['milliseconds']:
        return VDelta(kw['milliseconds'] * 1000)
    return timedelta(*a, **kw)


class Clock:
    """S6: wall clock tied to the virtual loop clock (both clocks advance together)"""
    loop = None

    @classmethod
    def now(cls):
        return VTime(cls.loop.now_us())


_rc.datetime = Clock
_rl.datetime = Clock
import rsocket.rsocket_base as _rb  # noqa: E402
_rb.timedelta = _vtimedelta


def new_loop():
    loop = VLoop()
    Clock.loop = loop
    return loop


try:
    from crosshair.tracers import NoTracing as _NoTracing, is_tracing as _is_tracing
except Exception:  # plain CPython replay
    import contextlib
    _NoTracing = contextlib.nullcontext

    def _is_tracing():
        return False

import enum as _enum
_CONC = (int, bool, bytes, bytearray, str, float, type(None))


def _conc_value(v):
    t = type(v)
    return t in _CONC or isinstance(v, (_enum.Enum, asyncio.Future)) or (t is type(iter(())) or t.__name__ == 'generator')


def _frame_is_concrete(frame):
    for klass in type(frame).__mro__:
        slots = getattr(klass, '__slots__', ())
        if isinstance(slots, str):          # e.g. RequestNFrame.__slots__ = 'request_n'
            slots = (slots,)
        for name in slots:
            if isinstance(name, str) and hasattr(frame, name):
                if not _conc_value(getattr(frame, name)):
                    return False
    return True


def fast_serialize(frame):
    """frame.serialize(); executed natively (untraced) when every field is concrete - same function, same result,
    without the tracer's interpretive overhead"""
    if _is_tracing():
        with _NoTracing():
            if _frame_is_concrete(frame):
                return frame.serialize()
    return frame.serialize()


def fast_parse(buf):
    if _is_tracing():
        with _NoTracing():
            if type(buf) in (bytes, bytearray):
                return parse_or_ignore(buf)
    return parse_or_ignore(buf)


def wire(frame):
    """what the peer's decoder would hand over for this frame"""
    return fast_parse(fast_serialize(frame))


class SimTransport(Transport):
    """frame-level transport: outbound frames are recorded as the peer would decode them;
    inbound items are put on `q` by the harness (Frame | None=EOF | Exception)."""

    def __init__(self, loop, length_header=False, suspend_connect=False, block_sends=False, fail_send_at=None):
        super().__init__()
        self.loop = loop
        self.sent = []          # (t_us, decoded frame)
        self.trace = []         # ('in'|'out', decoded frame) in global order
        self._slots = None      # set by instrument(): out-frames are ordered by the moment they were QUEUED
        self.raw = []           # in-memory frames as handed over
        self.q = asyncio.Queue()
        self.closed = 0
        self.length_header = length_header
        self.suspend_connect = suspend_connect
        self.connected = None
        self.connect_calls = 0
        self.block_sends = block_sends
        self.gate = None
        self.fail_send_at = fail_send_at
        self.send_calls = 0
        self.sent_after_close = 0
        self.auto_ack = False   # behave like a live server: answer every respond-flagged KEEPALIVE
        self.close_raises = False   # close() fails the way a reset TCP connection does (wait_closed re-raising)

    async def connect(self):
        self.connect_calls += 1
        if self.suspend_connect:
            self.connected = self.loop.create_future()
            await self.connected

    def finish_connect(self):
        if self.connected is not None and not self.connected.done():
            self.connected.set_result(None)

    async def send_frame(self, frame):
        self.send_calls += 1
        if self.fail_send_at is not None and self.send_calls >= self.fail_send_at:
            from rsocket.exceptions import RSocketTransportError
            raise RSocketTransportError()
        if self.closed:
            self.sent_after_close += 1
        self.raw.append(frame)
        _dec = fast_parse(fast_serialize(frame))
        self.sent.append((self.loop.now_us(), _dec))
        if self._slots is None:
            self.trace.append(('out', _dec))
        else:
            dq = self._slots.get(frame.stream_id)
            if dq:
                dq[0][1].append(_dec)
                if not getattr(_dec, 'flags_follows', False):
                    dq.pop(0)
            else:
                self.trace.append(['out', [_dec]])
        if self.auto_ack and isinstance(_dec, KeepAliveFrame) and _dec.flags_respond and not self.closed:
            ack = KeepAliveFrame()
            ack.flags_respond = False
            self.q.put_nowait(ack)
        if self.block_sends:
            self.gate = self.loop.create_future()
            await self.gate

    def release(self):
        if self.gate is not None and not self.gate.done():
            self.gate.set_result(None)

    async def next_frame_generator(self):
        item = await self.q.get()
        if item is None:
            return None
        if isinstance(item, Exception):
            raise item
        if self._slots is not None:
            self.trace.append(['in', [item]])

        async def g():
            yield item
        return g()

    def instrument(self, ep):
        """order the trace by what the endpoint KNEW: inbound frames when the receiver takes them, outbound frames
        when they were queued (a frame queued before a reception cannot be unsent).  Observation only."""
        self._slots = {}
        orig = ep.send_frame

        def send_frame(frame):
            slot = ['out', []]
            self.trace.append(slot)
            self._slots.setdefault(frame.stream_id, []).append(slot)
            return orig(frame)
        ep.send_frame = send_frame

    def ordered_trace(self):
        out = []
        for d, frames in self.trace:
            if isinstance(frames, list):
                for f in frames:
                    out.append((d, f))
            else:
                out.append((d, frames))
        return out

    def requires_length_header(self):
        return self.length_header

    async def close(self):
        self.closed += 1
        if self.close_raises:
            raise ConnectionResetError('connection reset by peer')

    # harness helpers
    def feed(self, frame):
        if self._slots is None:
            self.trace.append(('in', frame))
        self.q.put_nowait(frame)

    def feed_wire(self, frame):
        f = wire(frame)
        if f is not None:
            if self._slots is None:
                self.trace.append(('in', f))
            self.q.put_nowait(f)

    def eof(self):
        self.q.put_nowait(None)

    def fail(self):
        from rsocket.exceptions import RSocketTransportError
        self.q.put_nowait(RSocketTransportError())

    def frames(self, stream_id=None):
        return [f for _, f in self.sent if stream_id is None or f.stream_id == stream_id]


class SimMessageTransport(AbstractMessagingTransport):
    """message transport shaped exactly like aiohttp/quart/websockets glue: each received binary message is
    fed through the real FrameParser.receive_data(message, 0) and the frames are queued."""

    def __init__(self, loop, cap=50):
        super().__init__()
        self.loop = loop
        self.out = []           # serialized outbound messages
        self.closed = 0
        self.cap = cap
        self.runaway = False
        self.peer = None

    def deliver(self, message):
        """synchronously drive the async generator (it never really suspends)"""
        agen = self._frame_parser.receive_data(message, 0)
        n = 0
        while True:
            try:
                coro = agen.__anext__()
                try:
                    coro.send(None)
                    raise RuntimeError('parser suspended')
                except StopIteration as si:
                    frame = si.value
            except StopAsyncIteration:
                break
            self._incoming_frame_queue.put_nowait(frame)
            n += 1
            if n > self.cap:
                self.runaway = True
                break
        return n

    def eof(self):
        from rsocket.exceptions import RSocketTransportError
        self._incoming_frame_queue.put_nowait(RSocketTransportError())

    async def send_frame(self, frame):
        self.out.append(fast_serialize(frame))

    async def close(self):
        self.closed += 1


class Pipe:
    """one direction of a TCP link: StreamWriter stand-in on the writing side whose bytes are delivered (in
    chunks chosen by the harness) to the StreamReader of the reading side"""

    def __init__(self, loop, auto_drain=True):
        self.loop = loop
        self.pending = b''
        self.written = []
        self.reader = asyncio.StreamReader(loop=loop)
        self.closed = False
        self.auto_drain = auto_drain
        self.drain_gate = None
        self.fail_writes = False
        self.writes_after_close = 0

    def write(self, b):
        if self.fail_writes:
            raise ConnectionResetError()
        if self.closed:
            self.writes_after_close += 1
        b = bytes(b)
        self.written.append(b)
        self.pending += b

    async def drain(self):
        if self.fail_writes:
            raise ConnectionResetError()
        if not self.auto_drain:
            self.drain_gate = self.loop.create_future()
            await self.drain_gate

    def release_drain(self):
        if self.drain_gate is not None and not self.drain_gate.done():
            self.drain_gate.set_result(None)

    def close(self):
        self.closed = True

    async def wait_closed(self):
        pass

    def deliver(self, n):
        chunk, self.pending = self.pending[:n], self.pending[n:]
        if len(chunk):
            self.reader.feed_data(chunk)
        return len(chunk)

    def all_bytes(self):
        return b''.join(self.written)


def drive_agen(agen, cap=50):
    """run an async generator that never truly suspends; returns (items, runaway)"""
    out = []
    while True:
        try:
            coro = agen.__anext__()
            try:
                coro.send(None)
                raise RuntimeError('async generator suspended')
            except StopIteration as si:
                out.append(si.value)
        except StopAsyncIteration:
            return out, False
        if len(out) > cap:
            return out, True


async def provider(transports):
    for t in transports:
        yield t


class Rec(Subscriber):
    """recording subscriber; log entries: 'S', 'N', 'NC' (next+complete), 'C', 'E:<type>'"""

    def __init__(self, request_on_subscribe=None):
        self.log = []
        self.vals = []
        self.subscription = None
        self._req = request_on_subscribe

    def on_subscribe(self, s):
        self.log.append('S')
        self.subscription = s
        if self._req is not None:
            s.request(self._req)

    def on_next(self, v, is_complete=False):
        self.log.append('NC' if is_complete else 'N')
        self.vals.append((v.data, v.metadata))

    def on_error(self, e):
        self.log.append('E:' + type(e).__name__)
        self.err = e

    def on_complete(self):
        self.log.append('C')


def grammar_dev(log):
    """subscriber callback grammar on_subscribe · on_next* · terminal? ; returns '' or a deviation name"""
    if not log:
        return ''
    if log[0] != 'S':
        return 'signal-before-on_subscribe'
    term = False
    for x in log[1:]:
        if x == 'S':
            return 'second-on_subscribe'
        if term:
            return 'signal-after-terminal:' + ('error' if x[:2] == 'E:' else 'complete' if x in ('C', 'NC') else 'next')
        if x == 'NC' or x == 'C' or x[:2] == 'E:':
            term = True
    return ''


def terminals(log):
    return len([x for x in log if x == 'NC' or x == 'C' or x[:2] == 'E:'])


class RecPub(Publisher, Subscription):
    """recording application publisher (manual emission by the harness)"""

    def __init__(self, raise_on_cancel=False, raise_on_subscribe=False, raise_on_request=False):
        self.requested = []
        self.cancelled = 0
        self.done = False
        self.sub = None
        self.raise_on_cancel = raise_on_cancel
        self.raise_on_subscribe = raise_on_subscribe
        self.raise_on_request = raise_on_request

    def subscribe(self, subscriber):
        if self.raise_on_subscribe:
            raise RuntimeError('subscribe failed')
        self.sub = subscriber
        subscriber.on_subscribe(self)

    def request(self, n):
        if self.raise_on_request:
            raise RuntimeError('request failed')
        self.requested.append(n)

    def cancel(self):
        self.cancelled += 1
        if self.raise_on_cancel:
            raise RuntimeError('cancel failed')

    def emit(self, payload, complete=False):
        if self.sub is not None and not self.done:
            if complete:
                self.done = True
            self.sub.on_next(payload, complete)

    def complete(self):
        if self.sub is not None and not self.done:
            self.done = True
            self.sub.on_complete()

    def error(self, exc=None):
        if self.sub is not None and not self.done:
            self.done = True
            self.sub.on_error(exc or RuntimeError('app error'))


def generic_dev(loop, *endpoints, expect_closed=False):
    """§3.3a monitors: loop exception handler never called, no livelock, tasks alive (or all finished after close)"""
    if loop.livelock:
        return 'livelock'
    if loop.errors():
        import os
        if os.environ.get('VERIF_DEBUG_ERRORS'):
            c = loop.errors()[0]
            return 'loop-exception-handler-called:%s|%r' % (str(c.get('message'))[:200], c.get('exception'))
        return 'loop-exception-handler-called'
    for ep in endpoints:
        for name in ('_sender_task', '_receiver_task'):
            t = getattr(ep, name, None)
            if expect_closed:
                if t is not None and not t.done():
                    return 'task-alive-after-close:' + name
            else:
                if t is None or t.done():
                    return 'task-dead:' + name
    return ''


def fkind(f):
    return type(f).__name__.replace('Frame', '')


def pick(i, options):
    """selector -> concrete option by explicit branching (tuple indexing with a symbolic index stays symbolic)"""
    n = len(options)
    for j in range(n - 1):
        if i == j:
            return options[j]
    return options[n - 1]


def conc(i, lo, hi):
    """force a small symbolic int in [lo, hi] to a concrete value by branching"""
    for j in range(lo, hi):
        if i == j:
            return j
    return hi


def concb(b):
    if b:
        return True
    return False


def untraced(fn, *args):
    """run a harness-side (oracle / reference) computation on CONCRETE inputs natively"""
    if _is_tracing():
        with _NoTracing():
            return fn(*args)
    return fn(*args)
