import argparse
import json
import os
import sys

HERE = os.path.dirname(os.path.abspath(__file__))
sys.path.insert(0, HERE)

from vlib import engine  # noqa: E402


def main():
    if len(sys.argv) >= 2 and sys.argv[1] == 'setup':
        engine.ensure_venv(verbose=True)
        print('setup ok')
        return 0
    if len(sys.argv) >= 3 and sys.argv[1] == 'replay':
        engine.ensure_venv()
        w = json.load(open(sys.argv[2]))
        if 'script' in w:
            print(json.dumps(w, indent=1))
            return 0
        os.environ['VERIF_REPLAY_VERBOSE'] = '1'
        rep = engine.run_replay(os.path.join(HERE, w['harness']), w['func'], w.get('part', {}),
                                w.get('backend', 'native'), w['call'])
        print(json.dumps({'call': w['call'], 'part': w.get('part'), 'backend': w.get('backend'), 'result': rep}, indent=1))
        return 0
    ap = argparse.ArgumentParser()
    ap.add_argument('prop')
    ap.add_argument('--tier', default=os.environ.get('VERIF_TIER', 'quick'), choices=['quick', 'thorough'])
    ap.add_argument('--only', default=None, help='substring filter on condition names (debugging; evidence is partial)')
    ap.add_argument('--only-part', default=None, help='substring filter on the partition JSON (debugging; evidence is partial)')
    a = ap.parse_args()
    seed = int(os.environ.get('VERIF_SEED', '0') or 0)
    import specs
    spec = specs.spec(a.prop, a.tier, seed)
    if a.only:
        spec['conds'] = [c for c in spec['conds'] if a.only in (getattr(c, 'func', None) or c.name)]
    if a.only_part:
        for c in spec['conds']:
            if hasattr(c, 'parts'):
                c.parts = [p for p in c.parts if a.only_part in json.dumps(p, sort_keys=True)]
        spec['conds'] = [c for c in spec['conds'] if not hasattr(c, 'parts') or c.parts]
    return engine.check_property(a.prop, a.tier, spec, seed=seed)


if __name__ == '__main__':
    sys.exit(main())
