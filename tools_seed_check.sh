#!/bin/sh
# usage: tools_seed_check.sh <seed dir with patch.diff> <property id> [tier]
# applies the seeded change to /repo, runs the property's check, and ALWAYS reverts /repo afterwards
SEED="$(realpath "$1")"; PROP="$2"; TIER="${3:-quick}"
cd /verif || exit 2
git -C /repo diff --quiet || { echo "/repo has local modifications - refusing"; exit 2; }
git -C /repo apply "$SEED/patch.diff" || { echo "patch does not apply"; exit 2; }
trap 'git -C /repo checkout -- . ; echo "[reverted /repo]"' EXIT
./vcheck "$PROP" --tier "$TIER" > "/tmp/prof/seedrun_${PROP}_$(basename $SEED).log" 2>&1
RC=$?
grep -E "^VIOLATION|^  condition|^HARNESS|^OK|^KNOWN" "/tmp/prof/seedrun_${PROP}_$(basename $SEED).log" | cut -c1-300 | head -12
echo "exit=$RC"
