"""Regenerate MANIFEST.json from the registry below (kept valid at all times)."""
import json
import os

HERE = os.path.dirname(os.path.abspath(__file__))
props = {json.loads(l)['id']: json.loads(l) for l in open(os.path.join(HERE, 'properties.jsonl'))}

# id -> (technique, level text, level note, design ref)
CLAIMED = json.load(open(os.path.join(HERE, 'claims.json')))
NA = json.load(open(os.path.join(HERE, 'not_applicable.json')))

checks = []
for pid in sorted(CLAIMED):
    c = CLAIMED[pid]
    checks.append({
        'property_id': pid,
        'quick_cmd': './vcheck %s --tier quick' % pid,
        'thorough_cmd': './vcheck %s --tier thorough' % pid,
        'evidence_file': 'evidence/%s.json' % pid,
        'replay_cmd_template': './vcheck replay {path}',
        'engine': c.get('engine', 'crosshair-z3'),
        'level_claimed': {'category': 'other', 'text': c['text'], 'design_ref': c.get('design_ref', 'DESIGN.md §5 ' + pid)},
        'level_note': c['note'],
        'technique': c['technique'],
    })
na = [{'property_id': pid, 'reason': NA[pid]} for pid in sorted(NA) if pid not in CLAIMED]
for pid in sorted(props):
    if pid not in CLAIMED and pid not in NA:
        na.append({'property_id': pid, 'reason': 'check not built yet (work in progress; see DESIGN.md §5 %s for the plan)' % pid})
m = {
    'version': 1,
    'setup_cmd': './vcheck setup',
    'hooks': {
        'guard': 'RSOCKET_PY_VERIF',
        'enable': 'no hooks are needed: all observation is at public boundaries (Transport, RequestHandler, Subscriber, Publisher); nothing in /repo reads the guard',
        'baseline_off_cmd': 'cd /repo && /venv/bin/python -m pytest -ra -q -p no:cacheprovider --timeout=900 --continue-on-collection-errors',
        'source_commits': [],
        'add_only': True,
    },
    'engines': [
        {'name': 'crosshair-z3', 'path': 'vlib/engine.py', 'serves_properties': sorted(CLAIMED),
         'kind_free_text': 'E1: symbolic execution of the real Python source with CrossHair 0.0.110 + z3 (per-path SMT), one OS process per condition/partition'},
        {'name': 'ast2smt', 'path': 'vlib/ast2smt.py', 'serves_properties': [p for p in ('C14', 'C16') if p in CLAIMED],
         'kind_free_text': 'E2: AST -> SMT translation of to_milliseconds with an exact integer encoding of binary64 round-to-nearest-even (z3), QF_BVFP cross-check (cvc5/z3)'},
    ],
    'checks': checks,
    'not_applicable': sorted(na, key=lambda x: x['property_id']),
    'notes': 'Exit codes: 0 held on everything explored; 1 + VIOLATION line = replay-confirmed violation; 3 = harness error or a core condition inconclusive (never reported as success). See DESIGN.md.',
}
json.dump(m, open(os.path.join(HERE, 'MANIFEST.json'), 'w'), indent=1)
print('claimed', len(checks), 'n/a', len(na))
