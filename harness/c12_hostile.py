"""C12 Hostile input and failing application code are contained (DESIGN §5 C12)."""
import struct
from datetime import timedelta

import vlib.env  # noqa: F401
from vlib import stats
from vlib.env import part
from vlib.known import allowed, pick as pick_dev
from vlib.sim import (new_loop, SimTransport, SimMessageTransport, provider, Rec, RecPub, generic_dev, pick, conc,
                      concb, drive_agen, wire)

from rsocket.error_codes import ErrorCode
from rsocket.frame import (SetupFrame, LeaseFrame, KeepAliveFrame, RequestResponseFrame, RequestFireAndForgetFrame,
                           RequestStreamFrame, RequestChannelFrame, RequestNFrame, CancelFrame, PayloadFrame,
                           ErrorFrame, MetadataPushFrame, ResumeFrame, ResumeOKFrame, InvalidFrame, Frame, FrameType)
from rsocket.frame_builders import to_request_response_frame, to_request_stream_frame, to_payload_frame
from rsocket.frame_parser import FrameParser
from rsocket.helpers import create_future
from rsocket.payload import Payload
from rsocket.request_handler import BaseRequestHandler
from rsocket.rsocket_client import RSocketClient
from rsocket.rsocket_server import RSocketServer

ALLOWED = allowed('C12')
FT = part('ft', 10)
LEN = part('len', 10)
SETUP_SHAPE = part('setup_shape', [0, 0, 3, 3])      # resume flag, token length, metadata MIME length, data MIME length
CODE = part('code', None)                           # ERROR frames: the 32-bit error code field (one value per process)
CLASSES = (SetupFrame, LeaseFrame, KeepAliveFrame, RequestResponseFrame, RequestFireAndForgetFrame, RequestStreamFrame,
           RequestChannelFrame, RequestNFrame, CancelFrame, PayloadFrame, ErrorFrame, MetadataPushFrame, ResumeFrame,
           ResumeOKFrame)


def fixlen(b, n):
    if n == 0:
        return b''
    return struct.pack('>%dB' % n, *[b[i] for i in range(n)])


def _is_bytes(x):
    return x is None or isinstance(x, (bytes, bytearray, memoryview))


def wellshaped(f):
    """every attribute the endpoint reads is present and of the right type/range"""
    if isinstance(f, InvalidFrame):
        return ''
    if not isinstance(f, CLASSES):
        return 'not-a-frame-object'
    if not (isinstance(f.stream_id, int) and 0 <= f.stream_id <= 0xFFFFFFFF):
        return 'stream-id-out-of-range'
    if not _is_bytes(f.data) or not _is_bytes(f.metadata):
        return 'payload-not-bytes'
    if isinstance(f, (RequestStreamFrame, RequestChannelFrame)) and not (0 <= f.initial_request_n <= 0xFFFFFFFF):
        return 'request-n-out-of-range'
    if isinstance(f, RequestNFrame) and not (0 <= f.request_n <= 0xFFFFFFFF):
        return 'request-n-out-of-range'
    if isinstance(f, ErrorFrame) and not isinstance(f.error_code, ErrorCode):
        return 'error-code-not-an-ErrorCode'
    if isinstance(f, LeaseFrame) and not (0 <= f.time_to_live <= 0x7FFFFFFF and 0 <= f.number_of_requests <= 0x7FFFFFFF):
        return 'lease-field-out-of-range'
    if isinstance(f, KeepAliveFrame) and not isinstance(f.flags_respond, bool) and f.flags_respond not in (0, 1):
        return 'respond-flag-not-boolean'
    if isinstance(f, SetupFrame) and not (_is_bytes(f.data_encoding) and _is_bytes(f.metadata_encoding)):
        return 'encoding-not-bytes'
    return ''


def c_bytes_to_frames(body: bytes) -> str:
    """
    Layer 1: an ARBITRARY frame body of LEN bytes whose type bits say FT (the 14 valid ids, and 0 / 15 / 62 / 63 as
    representatives of unknown types), fed length-prefixed and as one message through the real
    FrameParser.receive_data + parse_or_ignore: terminates, yields at most one object, that object is well-shaped,
    nothing is raised, the buffer is empty afterwards, both framings agree.  Length fields that the decoder uses
    as unchecked slice bounds are bounded by precondition (24-bit metadata length <= 64, resume-token length <= 8,
    MIME lengths <= 8) - the engine would otherwise enumerate them value by value.

    pre: len(body) == LEN
    pre: LEN < 5 or body[4] >> 2 == FT
    pre: _claimed_lengths_bounded(body)
    post: _ in ALLOWED
    """
    body = fixlen(body, LEN)
    devs = []
    try:
        p = FrameParser()
        out, run1 = drive_agen(p.receive_data(struct.pack('>I', LEN)[1:] + body), cap=6)
        q = FrameParser()
        out2, run2 = drive_agen(q.receive_data(body, 0), cap=6)
    except Exception as e:
        stats.note(False)
        return 'decoder-raised:' + type(e).__name__
    if run1 or run2:
        devs.append('decoder-does-not-terminate')
    if len(out) > 1 or len(out2) > 1:
        devs.append('more-than-one-object-for-one-frame')
    if len(out) != len(out2) and LEN > 0:
        devs.append('framings-disagree')
    for f in out + out2:
        w = wellshaped(f)
        if w:
            devs.append('ill-shaped-frame:' + w)
    if len(p._buffer) != 0 or len(q._buffer) != 0:
        devs.append('residual-bytes-left-in-buffer')
    stats.note(len(out) == 1 and not isinstance(out[0], InvalidFrame), {'ft': FT, 'len': LEN})
    return pick_dev(devs, ALLOWED)


def _claimed_lengths_bounded(body):
    n = len(body)
    if n < 6:
        return True
    ft = body[4] >> 2
    mflag = body[4] % 2 == 1           # (arithmetic, not `&`: the engine realises a byte that is and-ed)
    ok = True
    if ft in (4, 5, 10) and mflag and n >= 9:
        ok = ok and body[6] == 0 and body[7] == 0 and body[8] <= 64
    if ft in (6, 7) and mflag and n >= 13:
        ok = ok and body[10] == 0 and body[11] == 0 and body[12] <= 64
    if ft == 1:
        # SETUP: resume flag, token length and the two MIME lengths are fixed per process (SETUP_SHAPE)
        r, tl, l1, l2 = SETUP_SHAPE
        if (body[5] >= 128) != bool(r):
            return False
        off = 18
        if r:
            if n >= 20 and not (body[18] == 0 and body[19] == tl):
                return False
            off = 20 + tl
        if off < n and body[off] != l1:
            return False
        off2 = off + 1 + l1
        if off2 < n and body[off2] != l2:
            return False
        off3 = off2 + 1 + l2
        if mflag and off3 + 3 <= n:
            return body[off3] == 0 and body[off3 + 1] == 0 and body[off3 + 2] <= 16
        return True
    if ft == 11 and CODE is not None and n >= 10:
        return body[6:10] == struct.pack('>I', CODE)
    if ft == 13 and n >= 12:
        ok = ok and body[10] == 0 and body[11] <= 8
    return ok


# ------------------------------------------------------------------------------------------------ layer 2
CTX = part('ctx', 0)
ROLE = part('role', 'server')
FT2 = part('ft2', None)
FT3 = part('ft3', None)
SECOND = part('second', False)
CODES = tuple(ErrorCode)


class _H(BaseRequestHandler):
    def __init__(self):
        self.futs = []
        self.calls = 0          # invocations of request entry points
        self.pubs = []

    async def request_response(self, p):
        self.calls += 1
        if p.data == b'boom':
            raise RuntimeError('handler failed')
        return _done(Payload(b'ok' + (p.data or b'')))

    async def request_stream(self, p):
        self.calls += 1
        pub = RecPub()          # a live stream: emits only when the harness says so
        self.pubs.append(pub)
        return pub

    async def request_fire_and_forget(self, p):
        self.calls += 1

    async def request_channel(self, p):
        self.calls += 1
        pub = RecPub()
        self.pubs.append(pub)
        return pub, Rec()


def _done(v):
    f = create_future()
    f.set_result(v)
    return f


def _mk(ft, sid, fa, fb, fc, n, code):
    """a well-shaped frame of any of the 14 types as the decoder would hand it over (serialize -> parse)"""
    if ft == 0:
        f = SetupFrame()
        f.flags_lease = fa
        f.flags_resume = fb
        f.keep_alive_milliseconds = n
        f.max_lifetime_milliseconds = n
        f.metadata_encoding = b'a/b'
        f.data_encoding = b'c/d'
        f.token_length = 1
        f.resume_identification_token = b't'
    elif ft == 1:
        f = LeaseFrame()
        f.time_to_live = n % 2 ** 31
        f.number_of_requests = n % 2 ** 31
    elif ft == 2:
        f = KeepAliveFrame(b'k')
        f.flags_respond = fa
        f.last_received_position = n
    elif ft == 3:
        f = RequestResponseFrame()
        f.flags_follows = fa
    elif ft == 4:
        f = RequestFireAndForgetFrame()
        f.flags_follows = fa
    elif ft == 5:
        f = RequestStreamFrame()
        f.flags_follows = fa
        f.initial_request_n = n
    elif ft == 6:
        f = RequestChannelFrame()
        f.flags_follows = fa
        f.flags_complete = fb
        f.initial_request_n = n
    elif ft == 7:
        f = RequestNFrame()
        f.request_n = n
    elif ft == 8:
        f = CancelFrame()
    elif ft == 9:
        f = PayloadFrame()
        f.flags_follows = fa
        f.flags_complete = fb
        f.flags_next = fc
    elif ft == 10:
        f = ErrorFrame()
        f.error_code = code
    elif ft == 11:
        f = MetadataPushFrame()
        f.metadata = b'mm'
    elif ft == 12:
        f = ResumeFrame()
        f.token_length = 1
        f.resume_identification_token = b't'
        f.last_server_position = n
        f.first_client_position = n
    else:
        f = ResumeOKFrame()
        f.last_received_client_position = n
    if ft in (0, 3, 4, 5, 6, 9, 10):
        f.data = b'dd'
    f.stream_id = sid
    return wire(f)


def c_frames_to_endpoint(ft2: int, s2: int, fa: bool, fb: bool, fc: bool, n: int, code_i: int, second: bool,
                         ft3: int, s3: int) -> str:
    """
    Layer 2: after a context CTX (nothing / an InvalidFrame marker / a FOLLOWS fragment pending on a live own stream
    / a FOLLOWS request pending on a new peer stream / a request whose handler raises) ONE fully symbolic well-shaped
    frame - any of the 14 types, stream id in {0, live own id, live peer id, unused own-parity id, unused peer-parity
    id}, all flags, 32-bit n, any error code - optionally followed by a second one, reaches a real endpoint (ROLE).
    Then a probe request-response on a fresh id must be answered correctly; tasks alive, no livelock, every frame
    emitted in reaction is an ERROR on the offending frame's stream (stream 0 for setup errors) or a legitimate
    reply; the earlier own request is still resolvable.

    pre: (FT2 is None or ft2 == FT2) and 0 <= ft2 <= 13 and 0 <= ft3 <= 13 and (FT3 is None or ft3 == FT3)
    pre: 0 <= s2 <= 4 and 0 <= s3 <= 4
    pre: 0 <= n <= 0xFFFFFFFF
    pre: 0 <= code_i <= 10
    post: _ in ALLOWED
    """
    ft2 = conc(ft2, 0, 13)
    server = ROLE == 'server'
    own_live, peer_live = (2, 1) if server else (1, 2)
    unused_own, unused_peer = (8, 7) if server else (7, 8)
    ids = (0, own_live, peer_live, unused_own, unused_peer)
    sid2 = pick(s2, ids)
    code = pick(code_i, CODES) if ft2 == 10 else ErrorCode.INVALID      # (only ERROR frames carry a code)
    probe_id = 21 if server else 22
    loop = new_loop()
    with loop:
        t = SimTransport(loop)
        if server:
            ep = RSocketServer(t, handler_factory=_H)
        else:
            ep = RSocketClient(provider([t]), handler_factory=_H, keep_alive_period=timedelta(days=20),
                               max_lifetime_period=timedelta(days=24))
            loop.create_task(ep.connect())
        loop.run_ready()
        mine = ep.request_response(Payload(b'q'))                # live own stream
        ctx = CTX
        live_peer = ctx != 3          # (in context 3 the "live peer id" is the stream whose request is still incomplete)
        if live_peer:
            # live peer stream: a request-stream being served by a publisher that has not emitted yet
            t.feed_wire(to_request_stream_frame(peer_live, Payload(b'x'), initial_request_n=5))
        loop.run_ready()
        h = ep._handler
        if ctx == 1:
            t.feed(InvalidFrame())
        elif ctx == 2:
            t.feed(_mk(9, own_live, True, False, True, 0, code))
        elif ctx == 3:
            t.feed(_mk(3, peer_live, True, False, False, 0, code))
        elif ctx == 4:
            bad = to_request_response_frame(peer_live + 10, Payload(b'boom'))
            t.feed_wire(bad)
        loop.run_ready()
        n_before = len(t.sent)
        devs = []

        def feed_hostile(fr, ft, sid):
            """feed one hostile frame; a request frame on an id that is in use AT THAT MOMENT (an earlier hostile frame
            may legitimately have ended the stream) never reaches the application and never replaces the live stream"""
            table = ep._stream_control._streams
            before = table.get(sid)
            calls0 = h.calls
            t.feed(fr)
            loop.run_ready()
            if before is not None and 3 <= ft <= 6:
                if h.calls != calls0:
                    devs.append('C12:request-on-a-stream-id-in-use-reached-the-application')
                after = table.get(sid)
                if after is not None and after is not before:
                    devs.append('C12:live-stream-replaced-by-hostile-frame')

        fr = _mk(ft2, sid2, fa, fb, fc, n, code)
        if fr is not None:
            feed_hostile(fr, ft2, sid2)
        offenders = {sid2, 0}
        if SECOND:
            ft3 = conc(ft3, 0, 13)
            sid3 = pick(s3, ids)
            fr3 = _mk(ft3, sid3, fb, fc, fa, n, code)
            if fr3 is not None:
                feed_hostile(fr3, ft3, sid3)
            offenders.add(sid3)
        d = generic_dev(loop, ep)
        if d:
            devs.append(d)
        reaction = [f for _, f in t.sent[n_before:]]
        for f in reaction:
            if isinstance(f, ErrorFrame):
                if f.stream_id not in offenders and f.stream_id != peer_live:
                    devs.append('ERROR-on-a-stream-that-did-not-offend')
            elif isinstance(f, (KeepAliveFrame, PayloadFrame, LeaseFrame, CancelFrame, RequestNFrame)):
                pass          # legitimate replies (echo, response to a well-formed request, cancel of own stream...)
            else:
                devs.append('unexpected-frame-type-in-reaction:' + type(f).__name__)
        # probe on a fresh id
        n0 = len(t.sent)
        t.feed_wire(to_request_response_frame(probe_id, Payload(b'p')))
        loop.run_ready()
        ans = [f for _, f in t.sent[n0:] if f.stream_id == probe_id]
        if len(ans) != 1 or not isinstance(ans[0], PayloadFrame) or bytes(ans[0].data) != b'okp' or not ans[0].flags_complete:
            devs.append('probe-request-not-answered-correctly-after-hostile-input')
        # the interactions that were in progress and did not offend are still served
        if own_live not in offenders:
            t.feed_wire(to_payload_frame(own_live, Payload(b'mine-answer'), complete=True))
            loop.run_ready()
            if not mine.done() or mine.cancelled() or mine.exception() is not None or not bytes(mine.result().data).endswith(b'mine-answer'):   # (context 2: appended to the pending fragment)
                devs.append('C12:own-pending-request-no-longer-resolvable-after-hostile-input')
        if live_peer and peer_live not in offenders and h.pubs:
            n1 = len(t.sent)
            h.pubs[0].emit(Payload(b'el'))
            loop.run_ready()
            got = [f for _, f in t.sent[n1:] if f.stream_id == peer_live]
            if len(got) != 1 or not isinstance(got[0], PayloadFrame) or bytes(got[0].data) != b'el':
                devs.append('C12:live-peer-stream-no-longer-served-after-hostile-input')
        # ... and a request the application starts now still goes out and can be answered
        n2 = len(t.sent)
        later = ep.request_response(Payload(b'later'))
        loop.run_ready()
        reqs = [f for _, f in t.sent[n2:] if isinstance(f, RequestResponseFrame)]
        if len(reqs) != 1:
            devs.append('C12:own-request-after-hostile-input-not-sent')
        else:
            t.feed_wire(to_payload_frame(reqs[0].stream_id, Payload(b'later-answer'), complete=True))
            loop.run_ready()
            if not later.done() or later.cancelled() or later.exception() is not None or bytes(later.result().data) != b'later-answer':
                devs.append('C12:own-request-after-hostile-input-not-answerable')
        stats.note(True, {'role': ROLE, 'ctx': ctx, 'ft2': ft2, 'sid2': sid2, 'second': SECOND})
        t.eof()
        loop.run_ready()
        if loop.errors():
            devs.append('loop-exception-handler-called')
        if not mine.done():
            devs.append('own-request-left-pending-after-close')
        else:
            mine.cancelled() or mine.exception()
        if not server:
            loop.create_task(ep.close())
            loop.run_ready()
    return pick_dev(devs, ALLOWED)


# ------------------------------------------------------------------------------------------------ failing application code
ADAPTER = part('adapter', 'plain')        # plain | routing | reactivex | rx
ENTRY = part('entry', 'request_response')


def c_app_failure(how: int, exc_kind: int) -> str:
    """
    Failing application code: handler entry point ENTRY (through adapter ADAPTER) fails in manner `how`
    (0 raises immediately, 1 raises after its first await, 2 returns a failing future / a publisher that fails
    on subscribe, 3 publisher fails on request(n), 4 generator raises at the second element), raising exception kind exc_kind (RuntimeError,
    ConnectionResetError and TimeoutError - OSErrors that must not be mistaken for a lost transport -, KeyError, an exception whose only argument is not text).  The failure is
    confined to an ERROR on that stream (stream 0 for on_setup), the endpoint keeps serving: a request on another
    stream - sent before (still pending) and after - is answered correctly.

    pre: 0 <= how <= 4 and 0 <= exc_kind <= 4
    post: _ in ALLOWED
    """
    from harness.c12_app import build_handler, trigger_frame
    how = conc(how, 0, 4)
    exc_kind = conc(exc_kind, 0, 4)
    loop = new_loop()
    with loop:
        t = SimTransport(loop)
        factory, recorder = build_handler(ADAPTER, ENTRY, how, exc_kind)
        ep = RSocketServer(t, handler_factory=factory)
        loop.run_ready()
        devs = []
        fr, sid = trigger_frame(ENTRY, 5)
        t.feed_wire(fr)
        loop.run_ready()
        loop.advance_us(1000)
        d = generic_dev(loop, ep)
        if d:
            devs.append(d)
        out = t.frames()
        for f in out:
            if isinstance(f, ErrorFrame) and f.stream_id != sid:
                devs.append('ERROR-on-a-different-stream')
        errs = [f for f in out if isinstance(f, ErrorFrame) and f.stream_id == sid]
        one_way = ENTRY in ('request_fire_and_forget', 'on_metadata_push', 'on_error')
        if not one_way and len(errs) != 1:
            devs.append('failure-not-answered-with-exactly-one-ERROR:%d' % len(errs))
        # still serving
        n0 = len(t.sent)
        t.feed_wire(to_request_response_frame(9, Payload(b'ok?')))
        loop.run_ready()
        ans = [f for _, f in t.sent[n0:] if f.stream_id == 9]
        if len(ans) != 1 or not isinstance(ans[0], PayloadFrame) or bytes(ans[0].data) != b'pong':
            devs.append('other-stream-not-served-after-application-failure')
        stats.note(True, {'adapter': ADAPTER, 'entry': ENTRY, 'how': how, 'exc': exc_kind})
        t.eof()
        loop.run_ready()
        if loop.errors():
            devs.append('loop-exception-handler-called')
    return pick_dev(devs, ALLOWED)
