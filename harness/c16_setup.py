"""C16 Setup handshake: faithful SETUP first; correct accept/reject (DESIGN §5 C16)."""
import struct
from datetime import timedelta

import vlib.env  # noqa: F401
from vlib import stats
from vlib.env import part
from vlib.known import allowed, pick as pick_dev
from vlib.sim import (new_loop, SimTransport, provider, Rec, generic_dev, pick, conc, concb, wire, RecPub)

from rsocket.error_codes import ErrorCode
from rsocket.extensions.mimetypes import WellKnownMimeTypes
from rsocket.frame import (SetupFrame, ErrorFrame, ResumeFrame, KeepAliveFrame, RequestResponseFrame, LeaseFrame,
                           PayloadFrame)
from rsocket.frame_builders import to_request_response_frame
from rsocket.helpers import create_future
from rsocket.lease import SingleLeasePublisher
from rsocket.payload import Payload
from rsocket.request_handler import BaseRequestHandler
from rsocket.rsocket_client import RSocketClient
from rsocket.rsocket_server import RSocketServer

ALLOWED = allowed('C16')
WK = (WellKnownMimeTypes.APPLICATION_JSON, WellKnownMimeTypes.TEXT_PLAIN, WellKnownMimeTypes.MESSAGE_RSOCKET_COMPOSITE_METADATA,
      WellKnownMimeTypes.APPLICATION_OCTET_STREAM)
ELEN = part('elen', 3)
PLEN = part('plen', [1, 1])


def fixlen(b, n):
    if n == 0:
        return b''
    return struct.pack('>%dB' % n, *[b[i] for i in range(n)])


PERIODS_US = (1000, 500000, 1500000, 999600, 2500, 600000000, 86400001000, 2147483647000, 123456789000, 100)


PAIR = part('pair', [1, 5])


def c_setup_content(dk: int, mk: int, denc: bytes, menc: bytes, lease: bool,
                    has_payload: bool, data: bytes, meta: bytes) -> str:
    """
    The first frame a client sends is a SETUP that states exactly its configuration: version 1.0, keep-alive and
    lifetime in ms (E1 view: floats as reals; the exact binary64 rounding of to_milliseconds is decided by E2),
    data/metadata MIME types (well-known enum member or custom bytes), lease flag, setup payload.  The two periods
    are one pair per process from PERIODS_US (a symbolic timedelta is beyond the engine: it returned a non-reproducing
    counterexample); the millisecond arithmetic itself is decided over the full 31-bit range by E2 (vlib.e2_to_ms).

    pre: 0 <= dk <= 4 and 0 <= mk <= 4
    pre: len(denc) == ELEN and len(menc) == ELEN
    pre: len(data) == PLEN[0] and len(meta) == PLEN[1]
    post: _ in ALLOWED
    """
    denc = fixlen(denc, ELEN)
    menc = fixlen(menc, ELEN)
    data = fixlen(data, PLEN[0])
    meta = fixlen(meta, PLEN[1])
    dk = conc(dk, 0, 4)
    mk = conc(mk, 0, 4)
    ka_us = PERIODS_US[PAIR[0]]
    ml_us = PERIODS_US[PAIR[1]]
    d_arg = denc if dk == 4 else pick(dk, WK)
    m_arg = menc if mk == 4 else pick(mk, WK)
    d_name = denc if dk == 4 else pick(dk, WK).value.name
    m_name = menc if mk == 4 else pick(mk, WK).value.name
    loop = new_loop()
    with loop:
        t = SimTransport(loop)
        kw = dict(keep_alive_period=timedelta(microseconds=ka_us),
                  max_lifetime_period=timedelta(microseconds=ml_us),
                  data_encoding=d_arg, metadata_encoding=m_arg, honor_lease=concb(lease))
        if has_payload:
            kw['setup_payload'] = Payload(data, meta)
        c = RSocketClient(provider([t]), **kw)
        loop.create_task(c.connect())
        loop.run_ready()
        devs = []
        fr = t.frames()
        stats.note(len(fr) >= 1, {'dk': dk, 'mk': mk, 'lease': lease, 'payload': has_payload, 'ka_us': ka_us, 'ml_us': ml_us})
        if not fr or not isinstance(fr[0], SetupFrame):
            devs.append('first-frame-not-SETUP')
        else:
            s = fr[0]
            if s.stream_id != 0:
                devs.append('SETUP-not-on-stream-0')
            if (s.major_version, s.minor_version) != (1, 0):
                devs.append('SETUP-version-not-1.0')
            if abs(s.keep_alive_milliseconds * 1000 - ka_us) > 500:
                devs.append('SETUP-keepalive-ms-differs-from-configuration')
            if abs(s.max_lifetime_milliseconds * 1000 - ml_us) > 500:
                devs.append('SETUP-lifetime-ms-differs-from-configuration')
            if bytes(s.data_encoding) != d_name:
                devs.append('SETUP-data-encoding-differs')
            if bytes(s.metadata_encoding) != m_name:
                devs.append('SETUP-metadata-encoding-differs')
            if bool(s.flags_lease) != bool(lease):
                devs.append('SETUP-lease-flag-differs')
            if s.flags_resume:
                devs.append('SETUP-resume-flag-set')
            want_d, want_m = (data, meta) if has_payload else (b'', b'')
            if bytes(s.data or b'') != want_d or bytes(s.metadata or b'') != want_m:
                devs.append('SETUP-payload-differs')
            if len([f for f in fr if isinstance(f, SetupFrame)]) != 1:
                devs.append('SETUP-sent-more-than-once')
        d = generic_dev(loop, c)
        if d:
            devs.append(d)
        loop.create_task(c.close())
        loop.run_ready()
    return pick_dev(devs, ALLOWED)


KIND = part('kind', 0)


class _H(BaseRequestHandler):
    async def request_response(self, p):
        f = create_future()
        f.set_result(Payload(b'r'))
        return f


class _SyncLeasePublisher:
    """a lease publisher that hands out the current lease synchronously on subscription"""

    def subscribe(self, subscriber):
        from rsocket.lease import DefinedLease
        subscriber.on_next(DefinedLease(5, timedelta(seconds=10)))


LEASEPUB = part('leasepub', 0)      # 0 none, 1 lease publisher emitting synchronously in subscribe(), 2 SingleLeasePublisher (emits from a task)


def c_setup_first(suspend: bool, when: int, kind: int, wait_ms: int, ticks_after: int) -> str:
    """
    SETUP precedes every other frame, and is sent once, whatever is requested while connecting: transport whose
    connect() suspends (for a SYMBOLIC time, so keep-alive ticks may fall inside) or not; optionally a client-side
    lease publisher (LEASEPUB: emitting synchronously in subscribe() / from a task); a request of 5 kinds issued before the connect task first runs / while connect() is suspended / after it.

    pre: 0 <= when <= 3 and kind == KIND
    pre: 0 <= wait_ms <= 2500
    pre: 0 <= ticks_after <= 2
    post: _ in ALLOWED
    """
    when = conc(when, 0, 3)
    kind = conc(kind, 0, 4)
    suspend = concb(suspend)
    loop = new_loop()
    with loop:
        t = SimTransport(loop, suspend_connect=suspend)
        lp = None
        if LEASEPUB == 1:
            lp = _SyncLeasePublisher()
        elif LEASEPUB == 2:
            lp = SingleLeasePublisher(maximum_request_count=5, maximum_lease_time=timedelta(seconds=10))
        c = RSocketClient(provider([t]), keep_alive_period=timedelta(seconds=1), max_lifetime_period=timedelta(seconds=300),
                          honor_lease=lp is not None, lease_publisher=lp)
        if lp is not None:
            # the simulated server grants a lease right away so that requests are not held back
            lf = LeaseFrame()
            lf.number_of_requests = 100
            lf.time_to_live = 1000000
            t.feed_wire(lf)

        def req():
            if kind == 0:
                c.request_response(Payload(b'x'))
            elif kind == 1:
                c.fire_and_forget(Payload(b'x'))
            elif kind == 2:
                c.request_stream(Payload(b'x')).subscribe(Rec())
            elif kind == 3:
                c.request_channel(Payload(b'x'), RecPub()).subscribe(Rec())
            else:
                c.metadata_push(b'm')

        issued = False
        loop.create_task(c.connect())
        loop.run_iteration()                 # connect() runs up to its first suspension
        if when == 0:
            req()
            issued = True
        loop.run_ready()
        if when == 1:
            req()
            issued = True
            loop.run_ready()
        if suspend:
            loop.advance_us(wait_ms * 1000)
            if when == 2:
                req()
                issued = True
                loop.run_ready()
            t.finish_connect()
        loop.run_ready()
        if not issued:
            req()
        loop.run_ready()
        loop.advance_us(conc(ticks_after, 0, 2) * 1000000)
        frames = t.frames()
        stats.note(len(frames) >= 2, {'suspend': suspend, 'when': when, 'kind': kind,
                                      'order': [type(f).__name__ for f in frames[:4]]})
        devs = []
        if len(frames) < 1 or not isinstance(frames[0], SetupFrame):
            devs.append('frame-before-SETUP:' + (type(frames[0]).__name__ if frames else 'nothing-sent'))
        if len([f for f in frames if isinstance(f, SetupFrame)]) != 1:
            devs.append('SETUP-not-sent-exactly-once')
        if len([f for f in frames if not isinstance(f, (SetupFrame, KeepAliveFrame, LeaseFrame))]) < 1:
            devs.append('request-issued-while-connecting-was-lost')
        d = generic_dev(loop, c)
        if d:
            devs.append(d)
        loop.create_task(c.close())
        loop.run_ready()
    return pick_dev(devs, ALLOWED)


class _SetupH(BaseRequestHandler):
    raise_on_setup = False
    raise_kind = 0
    calls = None

    def __init__(self):
        self.setups = []

    async def on_setup(self, data_encoding, metadata_encoding, payload):
        self.setups.append((bytes(data_encoding), bytes(metadata_encoding), bytes(payload.data or b''),
                            bytes(payload.metadata or b'')))
        if type(self).raise_on_setup:
            kind = type(self).raise_kind
            if kind == 1:       # the application raises one of the library's own exception types (seed C16-4)
                from rsocket.exceptions import RSocketProtocolError
                raise RSocketProtocolError(ErrorCode.APPLICATION_ERROR, data='rejected by application')
            if kind == 2:
                from rsocket.exceptions import RSocketStreamIdInUse
                raise RSocketStreamIdInUse(1)
            raise RuntimeError('rejected by application')

    async def request_response(self, p):
        f = create_future()
        f.set_result(Payload(b'r'))
        return f


def c_server_setup(first: int, resume: bool, lease: bool, has_pub: bool, raises: bool, rkind: int, major: int, minor: int,
                   ka: int, ml: int, tok: bytes, denc: bytes, menc: bytes, data: bytes, meta: bytes) -> str:
    """
    Server side: an inbound SETUP (symbolic flags, version, periods, encodings, payload, token) is passed to
    on_setup exactly once iff acceptable; resume requested / lease requested without a lease publisher -> one
    ERROR[UNSUPPORTED_SETUP] on stream 0; on_setup raising (RuntimeError, or one of the library's own
    RSocketProtocolError / RSocketStreamIdInUse carrying another code) -> one ERROR[REJECTED_SETUP]; a RESUME frame -> one
    ERROR[REJECTED_RESUME]; the connection keeps serving afterwards.

    pre: 0 <= first <= 1 and 0 <= rkind <= 2
    pre: 0 <= major <= 0xFFFF and 0 <= minor <= 0xFFFF and 0 <= ka <= 0xFFFFFFFF and 0 <= ml <= 0xFFFFFFFF
    pre: len(tok) == 2 and len(denc) == ELEN and len(menc) == ELEN and len(data) == PLEN[0] and len(meta) == PLEN[1]
    post: _ in ALLOWED
    """
    tok = fixlen(tok, 2)
    denc = fixlen(denc, ELEN)
    menc = fixlen(menc, ELEN)
    data = fixlen(data, PLEN[0])
    meta = fixlen(meta, PLEN[1])
    first = conc(first, 0, 1)

    class H(_SetupH):
        raise_on_setup = concb(raises)
        raise_kind = conc(rkind, 0, 2) if raise_on_setup else 0

    loop = new_loop()
    with loop:
        t = SimTransport(loop)
        pub = SingleLeasePublisher(maximum_request_count=5, maximum_lease_time=timedelta(seconds=100)) if has_pub else None
        s = RSocketServer(t, handler_factory=H, lease_publisher=pub)
        loop.run_ready()
        if first == 0:
            f = SetupFrame()
            f.flags_resume = resume
            f.flags_lease = lease
            f.major_version = major
            f.minor_version = minor
            f.keep_alive_milliseconds = ka
            f.max_lifetime_milliseconds = ml
            f.token_length = 2
            f.resume_identification_token = tok
            f.data_encoding = denc
            f.metadata_encoding = menc
            f.data = data
            f.metadata = meta
        else:
            f = ResumeFrame()
            f.token_length = 2
            f.resume_identification_token = tok
            f.last_server_position = ka
            f.first_client_position = ml
        t.feed_wire(f)
        loop.run_ready()
        loop.advance_us(1000)
        h = s._handler
        out = t.frames()
        errs = [x for x in out if isinstance(x, ErrorFrame)]
        devs = []
        if first == 1:
            want = ErrorCode.REJECTED_RESUME
            acceptable = False
        elif resume or (lease and not has_pub):
            want = ErrorCode.UNSUPPORTED_SETUP
            acceptable = False
        elif raises:
            want = ErrorCode.REJECTED_SETUP
            acceptable = True          # reaches on_setup, which rejects
        else:
            want = None
            acceptable = True
        stats.note(True, {'first': first, 'resume': resume, 'lease': lease, 'pub': has_pub, 'raises': raises})
        if acceptable:
            if len(h.setups) != 1:
                devs.append('on_setup-not-invoked-exactly-once')
            elif h.setups[0] != (denc, menc, data, meta):
                devs.append('on_setup-arguments-differ-from-SETUP')
        elif h.setups:
            devs.append('on_setup-invoked-for-unacceptable-setup')
        if want is None:
            if errs:
                devs.append('acceptable-SETUP-answered-with-ERROR')
            if lease and has_pub and len([x for x in out if isinstance(x, LeaseFrame)]) != 1:
                devs.append('lease-not-announced-after-SETUP-with-lease')
        else:
            if len(errs) != 1:
                devs.append('rejection-not-exactly-one-ERROR')
            elif errs[0].stream_id != 0 or errs[0].error_code != want:
                devs.append('rejection-wrong-code-or-stream:' + ErrorCode(errs[0].error_code).name)
        # still serving
        n0 = len(t.sent)
        t.feed_wire(to_request_response_frame(7, Payload(b'p')))
        loop.run_ready()
        ans = [x for _, x in t.sent[n0:] if x.stream_id == 7]
        if len(ans) != 1 or not isinstance(ans[0], PayloadFrame):
            devs.append('probe-request-not-served-after-setup-handling')
        d = generic_dev(loop, s)
        if d:
            devs.append(d)
    return pick_dev(devs, ALLOWED)
