"""C05 Per-stream wire order and fragment contiguity under multiplexing (DESIGN §5 C05)."""
import vlib.env  # noqa: F401
from vlib import stats
from vlib.env import part
from vlib.known import allowed, pick as pick_dev
from vlib.sim import new_loop, SimTransport, generic_dev, pick, conc, concb, fkind

from rsocket.error_codes import ErrorCode
from rsocket.exceptions import RSocketProtocolError
from rsocket.frame import (KeepAliveFrame, PayloadFrame, ErrorFrame, CancelFrame, RequestNFrame, is_fragmentable_frame)
from rsocket.frame_builders import to_cancel_frame, to_request_n_frame
from rsocket.frame_fragment_cache import FrameFragmentCache
from rsocket.payload import Payload
from rsocket.rsocket_server import RSocketServer

ALLOWED = allowed('C05')
LENS = (1, 40, 100, 150, 210)            # 1, 1, 2, 3, 4 fragments at fragment size 64 (empty payloads = "no element", excluded)
S1 = part('s1', None)                    # partition: stream selector and variant of the first source
V1 = part('v1', None)
THIRD = part('third', 0)                 # 0 none, 1 a 2-fragment payload on stream 3, 2 an unfragmented COMPLETE on stream 1,
                                         # 3 an inbound respond-flagged KEEPALIVE (its echo is queued on stream 0 while the sender is busy)
MOMENTS = part('moments', 3)
LENHDR = part('lenhdr', False)
# variants: 0-4 payload of LENS[i]; 5-9 payload+complete of LENS[i]; 10 complete; 11 error (application exception);
# 12 cancel; 13 request-n; 14 error (a protocol error: REJECTED) - both through send_error
NV = 15


def _queue(s, sid, variant, tag):
    """queue one source through the socket's own API; returns its descriptor (kind, data)"""
    if variant < 5:
        d = bytes([65 + tag]) * LENS[variant]
        s.send_payload(sid, Payload(d), complete=False)
        return ('P', d)
    if variant < 10:
        d = bytes([65 + tag]) * LENS[variant - 5]
        s.send_payload(sid, Payload(d), complete=True)
        return ('PC', d)
    if variant == 10:
        s.send_complete(sid)
        return ('C', b'')
    if variant == 11:
        s.send_error(sid, RuntimeError('e%d' % tag))
        return ('E', b'e%d' % tag)
    if variant == 12:
        s.send_frame(to_cancel_frame(sid))
        return ('X', b'')
    if variant == 14:
        s.send_error(sid, RSocketProtocolError(ErrorCode.REJECTED, data='r%d' % tag))
        return ('E', b'r%d' % tag)
    s.send_frame(to_request_n_frame(sid, 7 + tag))
    return ('N', bytes([7 + tag]))


def _desc(f):
    if isinstance(f, PayloadFrame):
        d = bytes(f.data or b'')
        if f.flags_complete and not f.flags_next:
            return ('C', b'')
        return ('PC' if f.flags_complete else 'P', d)
    if isinstance(f, ErrorFrame):
        return ('E', bytes(f.data or b''))
    if isinstance(f, CancelFrame):
        return ('X', b'')
    if isinstance(f, RequestNFrame):
        return ('N', bytes([f.request_n]))
    return ('?', b'')


def c_wire_order(s1: bool, v1: int, m1: int, s2: bool, v2: int, m2: int, m3: int) -> str:
    """
    Two free sources (stream 1 or 3; payload / payload+complete of 0..4 fragments, complete, error (application or protocol
    error through send_error), cancel, request-n) plus an optional third (or an inbound respond-flagged KEEPALIVE whose echo joins the queue), each queued through the socket API before the sender starts or after the
    j-th frame has been handed to a transport whose send blocks until released.  Emitted sequence: per stream in
    queue order, fragments of a frame contiguous within their stream, receiver-side reassembly gives back each
    original payload.

    pre: (S1 is None or s1 == S1) and (V1 is None or v1 == V1)
    pre: 0 <= v1 < NV and 0 <= v2 < NV
    pre: 0 <= m1 <= MOMENTS and 0 <= m2 <= MOMENTS and 0 <= m3 <= MOMENTS
    post: _ in ALLOWED
    """
    v1 = conc(v1, 0, NV - 1)
    v2 = conc(v2, 0, NV - 1)
    m1 = conc(m1, 0, MOMENTS)
    m2 = conc(m2, 0, MOMENTS)
    m3 = conc(m3, 0, MOMENTS) if THIRD else 0
    sid1 = 1 if concb(s1) else 3
    sid2 = 1 if concb(s2) else 3
    plan = [(m1, sid1, v1, 0), (m2, sid2, v2, 1)]
    if THIRD == 1:
        plan.append((m3, 3, 2, 2))
    elif THIRD == 2:
        plan.append((m3, 1, 10, 2))
    elif THIRD == 3:
        plan.append((m3, 0, -1, 2))
    loop = new_loop()
    with loop:
        t = SimTransport(loop, length_header=LENHDR, block_sends=True)
        s = RSocketServer(t, fragment_size_bytes=64)
        queued = {1: [], 3: []}
        keepalives = 0
        # step j = "after the j-th frame has been handed to the (blocking) transport"; each step releases at most
        # one pending send, so sources queued at step j see exactly j frames emitted before them (or an idle sender)
        for step in range(0, 40):
            for (m, sid, v, tag) in plan:
                if m == step:
                    if v == -1:
                        ka = KeepAliveFrame(b'ka')
                        ka.flags_respond = True
                        t.feed_wire(ka)
                        keepalives += 1
                    else:
                        queued[sid].append(_queue(s, sid, v, tag))
            loop.run_ready()
            pending = t.gate is not None and not t.gate.done()
            if pending:
                t.release()
                loop.run_ready()
            elif step >= MOMENTS:
                break
        devs = []
        frames = t.frames()
        # receiver-side reassembly + contiguity, per stream
        cache = FrameFragmentCache()
        got = {1: [], 3: []}
        open_frag = {1: False, 3: False}
        echoes = 0
        for f in frames:
            sid = f.stream_id
            if sid == 0 and isinstance(f, KeepAliveFrame) and not f.flags_respond:
                echoes += 1
                continue
            if sid not in got:
                devs.append('frame-on-unexpected-stream')
                continue
            if is_fragmentable_frame(f):
                try:
                    whole = cache.append(f)
                except Exception:
                    devs.append('receiver-cannot-reassemble')
                    whole = None
                open_frag[sid] = bool(f.flags_follows)
                if whole is not None:
                    got[sid].append(_desc(whole))
            else:
                if open_frag[sid]:
                    devs.append('C05:interleave:same-stream-frame-between-fragments')
                got[sid].append(_desc(f))
        total = len(queued[1]) + len(queued[3])
        for sid in (1, 3):
            if got[sid] != queued[sid]:
                if sorted(got[sid]) == sorted(queued[sid]):
                    devs.append('per-stream-order-differs-from-queue-order')
                else:
                    devs.append('frames-merged-truncated-or-lost-at-receiver')
        if echoes != keepalives:
            devs.append('KEEPALIVE-answered-%d-times' % echoes)
        if len(cache._frames_by_stream_id) != 0:
            devs.append('receiver-left-with-partial-frame')
        stats.note(len(frames) > total, {'frames': len(frames), 'sources': total, 'third': THIRD})
        d = generic_dev(loop, s)
        if d:
            devs.append(d)
    return pick_dev(devs, ALLOWED)
