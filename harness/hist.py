"""Shared history driver for C07 / C08 / C09 / C10 (DESIGN §5): one real endpoint in one role, k symbolic events
(inbound frames of a protocol-legal peer, local application actions, connection loss / close), then checkpoints.

The four properties use this driver with different monitors; each check runs its own exploration.
"""
from datetime import timedelta

import vlib.env  # noqa: F401
from vlib.env import part
from vlib.sim import (new_loop, SimTransport, provider, Rec, RecPub, generic_dev, conc, concb, grammar_dev, terminals,
                      fkind)

from rsocket.error_codes import ErrorCode
from rsocket.exceptions import RSocketValueError
from rsocket.frame import (PayloadFrame, ErrorFrame, CancelFrame, RequestNFrame, RequestResponseFrame,
                           RequestStreamFrame, RequestChannelFrame, RequestFireAndForgetFrame, SetupFrame,
                           KeepAliveFrame, LeaseFrame, MetadataPushFrame)
from rsocket.frame_builders import (to_payload_frame, to_request_n_frame, to_cancel_frame, to_request_response_frame,
                                    to_request_stream_frame, to_request_channel_frame)
from rsocket.helpers import create_future
from rsocket.payload import Payload
from rsocket.request_handler import BaseRequestHandler
from rsocket.rsocket_client import RSocketClient
from rsocket.rsocket_server import RSocketServer

ROLE = part('role', 'rs_req')
K = part('k', 3)
PREFIX = part('prefix', [])            # concrete leading event indices (partitioning)
FRAG = part('frag', False)             # endpoint fragments at 64 bytes; local payloads are 100 bytes
LEASE = part('lease', False)           # client honours leases (requester roles): LEASE arrives as an extra event
REQ_FOLLOWS = part('req_follows', False)   # responder roles: the request itself arrives in two fragments
RESP_NO_PUB = part('resp_no_pub', False)   # channel responder: the handler returns (None, subscriber)
REQ_COMPLETE = part('req_complete', False) # channel responder: the REQUEST_CHANNEL carries COMPLETE (requester has no publisher)
EARLY_FIRST = part('early_first', False)   # the first event happens in the same loop slice as the opening of the interaction (its frames still queued)
NEIGHBOUR_RAISES = part('neighbour_raises', False)   # an earlier-registered peer stream whose publisher's cancel() raises when the connection ends
EMPTY_NEXT = part('empty_next', False)     # inbound PAYLOAD frames with NEXT carry no data and no metadata (legal: e.g. the last frame of a generator source)
PROBE_REUSE = part('probe_reuse', False)   # C10: after termination a new request on the same id must be accepted

# event kinds
PAYLOAD, ERROR, CANCEL, REQN, L_CANCEL, L_EMIT, L_END, LOSS, L_REQN, LEASE_EV = range(10)
NAMES = ('in:PAYLOAD', 'in:ERROR', 'in:CANCEL', 'in:REQUEST_N', 'app:cancel', 'app:emit', 'app:end', 'loss', 'app:request_n', 'in:LEASE')

ALPHABET = {
    'rr_req': (PAYLOAD, ERROR, L_CANCEL, LOSS),
    'rs_req': (PAYLOAD, ERROR, L_CANCEL, L_REQN, LOSS),
    'ch_req': (PAYLOAD, ERROR, CANCEL, REQN, L_CANCEL, L_EMIT, L_END, L_REQN, LOSS),
    'rr_resp': (CANCEL, L_EMIT, L_END, LOSS),
    'rs_resp': (CANCEL, REQN, L_EMIT, L_END, LOSS),
    'ch_resp': (PAYLOAD, ERROR, CANCEL, REQN, L_CANCEL, L_EMIT, L_END, LOSS),
}
if LEASE and ROLE.endswith('_req'):
    ALPHABET = dict(ALPHABET)
    ALPHABET[ROLE] = ALPHABET[ROLE] + (LEASE_EV,)
ALPHA = ALPHABET[ROLE]
NA = len(ALPHA)
SID = 1
BY = 3          # bystander stream


class _Handler(BaseRequestHandler):
    def __init__(self):
        self.futs = {}
        self.pubs = {}
        self.subs = {}
        self.closed = 0
        self.errors = []

    async def request_response(self, payload):
        f = create_future()
        self.futs[len(self.futs)] = f
        return f

    async def request_stream(self, payload):
        if payload.data == b'neighbour':
            return RecPub(raise_on_cancel=True)
        p = RecPub()
        self.pubs[len(self.pubs)] = p
        return p

    async def request_channel(self, payload):
        p = RecPub()
        s = Rec()
        self.subs[len(self.subs)] = s
        if RESP_NO_PUB:
            return None, s
        self.pubs[len(self.pubs)] = p
        return p, s

    async def on_close(self, rsocket, exception=None):
        self.closed += 1

    async def on_error(self, error_code, payload):
        self.errors.append(error_code)


class Obs:
    """everything the monitors look at"""
    pass


def _local_payload(tag):
    return Payload(bytes([97 + tag]) * (100 if FRAG else 1))


def run_history(ev, fa, fb, fc, n):
    """ev: list of event selectors (indices into ALPHA), fa/fb/fc: per-event symbolic flags, n: symbolic request-n.
    Returns an Obs.  Illegal (for a protocol-legal peer) or inapplicable events are skipped."""
    o = Obs()
    role = ROLE
    o.role = role
    loop = new_loop()
    o.loop = loop
    with loop:
        t = SimTransport(loop)
        o.t = t
        kw = dict(fragment_size_bytes=64) if FRAG else {}
        requester = role.endswith('_req')
        if requester:
            ep = RSocketClient(provider([t]), handler_factory=_Handler, keep_alive_period=timedelta(days=20),
                               max_lifetime_period=timedelta(days=24), honor_lease=bool(LEASE), **kw)
            t.instrument(ep)
            loop.create_task(ep.connect())
            loop.run_ready()
        else:
            ep = RSocketServer(t, handler_factory=_Handler, **kw)
            t.instrument(ep)
            loop.run_ready()
        o.ep = ep
        h = ep._handler
        o.h = h
        o.sub = o.fut = o.pub = o.rsub = None
        o.init_error = None
        if NEIGHBOUR_RAISES:
            # registered before the interaction under test: the endpoint meets it first when it ends all streams
            t.feed_wire(to_request_stream_frame(2 if requester else 9, Payload(b'neighbour'), initial_request_n=1))
            loop.run_ready()
        # ---- open the interaction under test (stream SID) and a bystander request-response (stream BY)
        if role == 'rr_req':
            o.fut = ep.request_response(_local_payload(0))
        elif role == 'rs_req':
            o.sub = Rec()
            try:
                ep.request_stream(_local_payload(0)).initial_request_n(n).subscribe(o.sub)
            except RSocketValueError as e:
                o.init_error = e
        elif role == 'ch_req':
            o.sub = Rec()
            o.pub = RecPub()
            try:
                ep.request_channel(_local_payload(0), o.pub).initial_request_n(n).subscribe(o.sub)
            except RSocketValueError as e:
                o.init_error = e
        else:
            if role == 'rr_resp':
                req = to_request_response_frame(SID, Payload(b'q' * (3 if not REQ_FOLLOWS else 80)))
            elif role == 'rs_resp':
                req = to_request_stream_frame(SID, Payload(b'q' * (3 if not REQ_FOLLOWS else 80)), initial_request_n=n)
            else:
                req = to_request_channel_frame(SID, Payload(b'q' * (3 if not REQ_FOLLOWS else 80)), initial_request_n=n,
                                               complete=bool(REQ_COMPLETE))
            if REQ_FOLLOWS:
                req.fragment_size_bytes = 64
                while True:
                    fr = req.get_next_fragment(False)
                    if fr is None:
                        break
                    t.feed_wire(fr)
            else:
                t.feed_wire(req)
            loop.run_ready()
            o.fut = h.futs.get(0)
            o.pub = h.pubs.get(0)
            o.rsub = h.subs.get(0)
        if requester:
            o.by = ep.request_response(Payload(b'by'))
        else:
            t.feed_wire(to_request_response_frame(BY, Payload(b'by')))
        if not EARLY_FIRST:
            loop.run_ready()
        o.by_fut = None if requester else h.futs.get(1 if role == 'rr_resp' else 0)

        # ---- peer-legality automaton state
        peer_done = bool(REQ_COMPLETE) and role == 'ch_resp'   # peer closed its sending direction (COMPLETE) or sent a terminal
        peer_dead = False         # peer sent ERROR (or CANCEL in rr/rs): nothing more from it on this stream
        peer_cancelled = False    # peer sent CANCEL (channel: it no longer wants our elements)
        peer_midfrag = False      # peer is in the middle of a fragmented PAYLOAD
        o.closed = False
        o.app_cancelled = False
        o.cancel_peer_done = False
        o.partial_kept_at_end = False
        o.cancel_at = None        # index into subscriber log / wire at the moment of the local cancel
        o.inbound_cancel = 0
        o.inbound_cancel_emitted_before = None
        o.applied = []
        o.lost_how = None
        tag = 1
        for i in range(len(ev)):
            e = ALPHA[ev[i]] if ev[i] < NA else None
            a, b, c = fa[i], fb[i], fc[i]
            if e is None or o.closed or o.init_error is not None:
                continue
            if e == PAYLOAD:
                if peer_done or peer_dead:
                    continue
                if role == 'rr_req':
                    nxt, comp, fol = concb(a), True, False
                else:
                    fol = concb(c)
                    if fol:
                        nxt, comp = True, False          # a fragment with FOLLOWS: the other flags do not matter
                    else:
                        nxt, comp = concb(a), concb(b)
                    if not nxt and not comp and not fol and not peer_midfrag:
                        continue
                fr = to_payload_frame(SID, Payload(b'd' if (nxt or fol or peer_midfrag) and not (EMPTY_NEXT and not fol and not peer_midfrag) else b''),
                                      complete=comp, is_next=nxt or fol or peer_midfrag)
                fr.flags_follows = fol
                t.feed_wire(fr)
                peer_midfrag = fol
                if comp:
                    peer_done = True
                o.applied.append('in:PAYLOAD' + ('+next' if nxt else '') + ('+complete' if comp else '') + ('+follows' if fol else ''))
                if role == 'rr_req' and concb(c):
                    o.applied[-1] += '(application-acts-before-the-loop-runs)'
                    continue          # race: the response is queued for the receiver, the next (local) event comes first
            elif e == ERROR:
                if peer_dead or peer_midfrag or (peer_done and role != 'ch_req' and role != 'ch_resp'):
                    continue
                if peer_done:
                    continue          # a peer that completed its direction sends no ERROR afterwards
                fr = ErrorFrame()
                fr.stream_id = SID
                fr.error_code = ErrorCode.APPLICATION_ERROR
                fr.data = b'peer error'
                t.feed_wire(fr)
                peer_done = True
                peer_dead = True
                o.applied.append('in:ERROR')
                if role == 'rr_req' and concb(c):
                    o.applied[-1] += '(application-acts-before-the-loop-runs)'
                    continue          # race: the ERROR is queued for the receiver, the next (local) event comes first
            elif e == CANCEL:
                if peer_cancelled or peer_dead or peer_midfrag:
                    continue
                if o.inbound_cancel_emitted_before is None:
                    o.inbound_cancel_emitted_before = len(t.sent)
                t.feed_wire(to_cancel_frame(SID))
                peer_cancelled = True
                o.inbound_cancel += 1
                if role in ('rr_resp', 'rs_resp'):
                    peer_dead = True
                    peer_done = True
                o.applied.append('in:CANCEL')
            elif e == REQN:
                if peer_cancelled or peer_dead or peer_midfrag:
                    continue
                t.feed_wire(to_request_n_frame(SID, n))
                o.applied.append('in:REQUEST_N')
            elif e == LEASE_EV:
                lf = LeaseFrame()
                lf.number_of_requests = 5
                lf.time_to_live = 100000
                t.feed_wire(lf)
                o.applied.append('in:LEASE')
            elif e == L_CANCEL:
                if o.app_cancelled:
                    continue
                if role == 'rr_req':
                    if o.fut.done():
                        continue
                    o.cancel_at = (0, len(t.sent))
                    o.fut.cancel()
                elif role in ('rs_req', 'ch_req'):
                    if o.sub.subscription is None or terminals(o.sub.log) > 0:
                        continue
                    o.cancel_at = (len(o.sub.log), len(t.sent))
                    o.sub.subscription.cancel()
                elif role == 'ch_resp':
                    if o.rsub is None or o.rsub.subscription is None or terminals(o.rsub.log) > 0:
                        continue
                    o.cancel_at = (len(o.rsub.log), len(t.sent))
                    o.rsub.subscription.cancel()
                else:
                    continue
                o.app_cancelled = True
                o.cancel_peer_done = peer_done or peer_dead
                o.applied.append('app:cancel' + ('(racing-next-event)' if concb(c) else ''))
                if concb(c):
                    continue          # race: the next event happens before the loop runs the cancel's callbacks
            elif e == L_EMIT:
                if role == 'rr_resp':
                    if o.fut is None or o.fut.done():
                        continue
                    o.fut.set_result(_local_payload(tag))
                elif o.pub is not None and o.pub.sub is not None and not o.pub.done and not (o.pub.cancelled and role != 'ch_req' and False):
                    if o.pub.cancelled:
                        continue      # a well-behaved application publisher stops after cancel()
                    o.pub.emit(_local_payload(tag), concb(a))
                else:
                    continue
                tag += 1
                o.applied.append('app:emit' + ('+complete' if role != 'rr_resp' and a else ''))
            elif e == L_END:
                if role == 'rr_resp':
                    if o.fut is None or o.fut.done():
                        continue
                    if concb(a):
                        o.fut.set_exception(RuntimeError('app failure'))
                    else:
                        o.fut.cancel()
                elif o.pub is not None and o.pub.sub is not None and not o.pub.done and not o.pub.cancelled:
                    if concb(a):
                        o.pub.error(RuntimeError('app failure'))
                    else:
                        o.pub.complete()
                else:
                    continue
                o.applied.append('app:end' + ('(error)' if a else '(complete/cancel)'))
            elif e == L_REQN:
                if o.sub is None or o.sub.subscription is None or o.app_cancelled:
                    continue
                o.sub.subscription.request(n)
                o.applied.append('app:request_n')
            elif e == LOSS:
                if concb(a):
                    if concb(b):
                        t.fail()
                        o.lost_how = 'transport-error'
                    else:
                        t.eof()
                        o.lost_how = 'eof'
                else:
                    loop.create_task(ep.close())
                    o.lost_how = 'close'
                o.closed = True
                o.applied.append('loss:' + o.lost_how)
                if role == 'rr_req' and o.lost_how != 'close' and concb(c) and i + 1 < len(ev) and ALPHA[ev[i + 1]] == L_CANCEL and not o.fut.done():
                    # race: the loss is queued for the receiver, the application cancels before the loop runs
                    o.applied[-1] += '(application-cancels-before-the-loop-runs)'
                    o.cancel_at = (0, len(t.sent))
                    o.fut.cancel()
                    o.app_cancelled = True
                    o.cancel_peer_done = True
            loop.run_ready()
            # a partial frame received BEFORE the interaction ended must be dropped when it ends (fragments that arrive
            # afterwards from a peer that is still mid-frame are transient and judged separately; a closed connection's
            # cache is dead state and not judged)
            if (SID not in ep._stream_control._streams and SID in ep._frame_fragment_cache._frames_by_stream_id
                    and not (e == PAYLOAD and peer_midfrag) and not o.closed):
                o.partial_kept_at_end = True
        loop.run_ready()          # quiescence (skipped events and racing cancels do not run the loop themselves)
        o.peer_done, o.peer_dead, o.peer_cancelled, o.peer_midfrag = peer_done, peer_dead, peer_cancelled, peer_midfrag
        # ---- checkpoint 1 (connection possibly still open): state snapshots for the monitors
        o.streams_open = sorted(ep._stream_control._streams.keys())
        o.cache_open = sorted(ep._frame_fragment_cache._frames_by_stream_id.keys())
        o.sent_at_cp1 = len(t.sent)
        o.sub_log_cp1 = list(o.sub.log) if o.sub is not None else None
        # ---- bystander probe
        o.by_ok = None
        o.reuse_ok = None
        if not o.closed:
            if PROBE_REUSE and not requester and SID not in o.streams_open and not peer_midfrag:
                n1 = len(t.sent)
                t.feed_wire(to_request_response_frame(SID, Payload(b'again')))
                loop.run_ready()
                rej = [f for _, f in t.sent[n1:] if f.stream_id == SID and isinstance(f, ErrorFrame)]
                o.reuse_ok = not rej and SID in ep._stream_control._streams
                fut2 = h.futs.get(max(h.futs.keys())) if h.futs else None
                if fut2 is not None and not fut2.done():
                    fut2.set_result(Payload(b'again-answer'))
                loop.run_ready()
            n0 = len(t.sent)
            if requester:
                t.feed_wire(to_payload_frame(BY, Payload(b'by-answer'), complete=True))
                loop.run_ready()
                o.by_ok = o.by.done() and not o.by.cancelled() and o.by.exception() is None and bytes(o.by.result().data) == b'by-answer'
            else:
                if o.by_fut is not None and not o.by_fut.done():
                    o.by_fut.set_result(Payload(b'by-answer'))
                loop.run_ready()
                ans = [f for _, f in t.sent[n0:] if f.stream_id == BY]
                o.by_ok = len(ans) == 1 and isinstance(ans[0], PayloadFrame) and bytes(ans[0].data) == b'by-answer' and bool(ans[0].flags_complete)
            o.generic_open = generic_dev(loop, ep)
            o.streams_after_by = sorted(ep._stream_control._streams.keys())
            o.cache_after_by = sorted(ep._frame_fragment_cache._frames_by_stream_id.keys())
            # ---- final connection loss: second terminal signals show up here
            t.eof()
            loop.run_ready()
        else:
            o.generic_open = ''
            o.streams_after_by = o.streams_open
            o.cache_after_by = o.cache_open
        loop.advance_us(1000000)
        o.generic_closed = generic_dev(loop, ep, expect_closed=True)
        if requester:
            loop.create_task(ep.close())
            loop.run_ready()
    return o


# ----------------------------------------------------------------------------------------------------------------
def stream_terminated(o):
    """(terminated?, cause) at checkpoint 1, by the PROTOCOL's definition of a terminated interaction"""
    role = o.role
    fr = [f for _, f in o.t.sent[:o.sent_at_cp1] if f.stream_id == SID]
    own_complete = any(isinstance(f, PayloadFrame) and f.flags_complete and not f.flags_follows for f in fr)
    own_error = any(isinstance(f, ErrorFrame) for f in fr)
    own_cancel = any(isinstance(f, CancelFrame) for f in fr)
    if role == 'ch_req' and any(isinstance(f, RequestChannelFrame) and f.flags_complete for f in fr):
        own_complete = True
    if o.closed:
        return True, 'connection-closed'
    if o.init_error is not None:
        return True, 'refused-by-api'
    if role in ('rr_req', 'rs_req'):
        if o.peer_dead:
            return True, 'peer-ERROR'
        if o.peer_done:
            return True, 'peer-COMPLETE'
        if own_cancel or o.app_cancelled:
            return True, 'own-CANCEL'
        return False, ''
    if role in ('rr_resp', 'rs_resp'):
        if own_error:
            return True, 'own-ERROR'
        if own_complete:
            return True, 'own-COMPLETE'
        if o.peer_cancelled:
            return True, 'peer-CANCEL'
        if role == 'rr_resp' and o.fut is not None and o.fut.cancelled():
            return True, 'handler-future-cancelled'
        return False, ''
    # channel
    if o.peer_dead:
        return True, 'peer-ERROR'
    if own_error:
        return True, 'own-ERROR'
    if role == 'ch_req' and (own_cancel or o.app_cancelled):
        return True, 'requester-CANCEL'
    if role == 'ch_resp' and o.peer_cancelled:
        return True, 'requester-CANCEL'
    inbound_closed = o.peer_done or own_cancel or o.app_cancelled
    outbound_closed = own_complete or o.peer_cancelled
    if inbound_closed and outbound_closed:
        return True, 'both-directions-closed'
    return False, ''


def describe(o):
    return {'role': o.role, 'events': list(o.applied)}
