"""C04 Decoded frames are independent of how the byte stream is chunked (DESIGN §5 C04)."""
import struct

import vlib.env  # noqa: F401
from vlib import stats
from vlib.env import part
from vlib.known import allowed, pick as pick_dev
from vlib.sim import new_loop, drive_agen, Pipe, conc, untraced

import rsocket.frame_parser as _fp
from rsocket.frame import (InvalidFrame, parse_or_ignore, serialize_with_frame_size_header, KeepAliveFrame,
                           CancelFrame, ErrorFrame, LeaseFrame, MetadataPushFrame, ResumeOKFrame)
from rsocket.frame_builders import (to_payload_frame, to_request_n_frame, to_request_stream_frame,
                                    to_request_response_frame, to_request_channel_frame, to_fire_and_forget_frame,
                                    to_setup_frame, to_cancel_frame)
from rsocket.frame_parser import FrameParser
from rsocket.error_codes import ErrorCode
from rsocket.payload import Payload
from rsocket.transports.tcp import TransportTCP
from datetime import timedelta

ALLOWED = allowed('C04')
LB = part('lb', 4)
LC = part('lc', 6)


def fixlen(b, n):
    if n == 0:
        return b''
    return struct.pack('>%dB' % n, *[b[i] for i in range(n)])


class _Boom(Exception):
    pass


def _stub_parse(buf):
    """recording stand-in for parse_or_ignore in lemma L1: delimiting never looks inside a frame"""
    if len(buf) > 0 and buf[0] == 0xFF:
        raise _Boom()
    if len(buf) > 0 and buf[0] == 0xFE:
        return None                     # 'frame to ignore'
    return ('F', bytes(buf))


def _ref_delimit(stream):
    """reference: frames of a length-prefixed byte string and the residual"""
    out = []
    rest = stream
    guard = 0
    while len(rest) >= 3:
        n = rest[0] * 65536 + rest[1] * 256 + rest[2]
        if len(rest) < 3 + n:
            break
        body = rest[3:3 + n]
        if len(body) > 0 and body[0] == 0xFF:
            out.append('INVALID')
        elif len(body) > 0 and body[0] == 0xFE:
            pass
        else:
            out.append(('F', bytes(body)))
        rest = rest[3 + n:]
        guard += 1
        if guard > 40:
            break
    return out, bytes(rest)


def _norm(items):
    return ['INVALID' if isinstance(x, InvalidFrame) else x for x in items]


def c_delimit_step(buf: bytes, chunk: bytes) -> str:
    """
    L1 (inductive step, arbitrary content): receive_data(buf) then receive_data(chunk) on one parser yields the
    same frames and leaves the same residual as the reference delimiter on buf+chunk (hence as one-shot
    receive_data(buf+chunk)).  Lengths LB, LC fixed per process, contents symbolic.

    pre: len(buf) == LB and len(chunk) == LC
    post: _ in ALLOWED
    """
    buf = fixlen(buf, LB)
    chunk = fixlen(chunk, LC)
    saved = _fp.parse_or_ignore
    _fp.parse_or_ignore = _stub_parse
    try:
        p = FrameParser()
        a, run1 = drive_agen(p.receive_data(buf))
        b, run2 = drive_agen(p.receive_data(chunk))
        q = FrameParser()
        c, run3 = drive_agen(q.receive_data(buf + chunk))
    finally:
        _fp.parse_or_ignore = saved
    devs = []
    if run1 or run2 or run3:
        devs.append('parser-does-not-terminate')
    want, rest = _ref_delimit(buf + chunk)
    got = _norm(a) + _norm(b)
    if got != want:
        devs.append('chunked-frames-differ-from-reference')
    if _norm(c) != want:
        devs.append('one-shot-frames-differ-from-reference')
    if bytes(p._buffer) != rest:
        devs.append('chunked-residual-differs')
    if bytes(q._buffer) != rest:
        devs.append('one-shot-residual-differs')
    stats.note(len(want) >= 1, {'frames': len(want), 'lb': LB, 'lc': LC})
    return pick_dev(devs, ALLOWED)


LA = part('la', 4)


def c_delimit_three(a: bytes, b: bytes, c: bytes) -> str:
    """
    L1 over THREE reads (parser states reachable after two reads, e.g. a frame that was split and then turned out
    undecodable): receive_data(a), receive_data(b), receive_data(c) on one parser == reference delimiter on a+b+c,
    same residual.  Lengths LA, LB, LC fixed per process, contents symbolic.

    pre: len(a) == LA and len(b) == LB and len(c) == LC
    post: _ in ALLOWED
    """
    a = fixlen(a, LA)
    b = fixlen(b, LB)
    c = fixlen(c, LC)
    saved = _fp.parse_or_ignore
    _fp.parse_or_ignore = _stub_parse
    try:
        p = FrameParser()
        out = []
        runaway = False
        for piece in (a, b, c):
            got, r = drive_agen(p.receive_data(piece))
            out += _norm(got)
            runaway = runaway or r
    finally:
        _fp.parse_or_ignore = saved
    devs = []
    if runaway:
        devs.append('parser-does-not-terminate')
    want, rest = _ref_delimit(a + b + c)
    if out != want:
        devs.append('chunked-frames-differ-from-reference')
    if bytes(p._buffer) != rest:
        devs.append('chunked-residual-differs')
    stats.note(len(want) >= 1, {'frames': len(want), 'la': LA, 'lb': LB, 'lc': LC})
    return pick_dev(devs, ALLOWED)


# ------------------------------------------------------------------------------------------------ L2
def _sig(f):
    if isinstance(f, InvalidFrame):
        return 'INVALID'
    d = getattr(f, 'data', None)
    m = getattr(f, 'metadata', None)
    return (type(f).__name__, f.stream_id, bytes(d) if d else b'', bytes(m) if m else b'',
            bool(getattr(f, 'flags_follows', False)), bool(getattr(f, 'flags_complete', False)),
            getattr(f, 'request_n', getattr(f, 'initial_request_n', None)))


def _w(frame):
    return serialize_with_frame_size_header(frame)


def _err(sid, code, data):
    f = ErrorFrame()
    f.stream_id = sid
    f.error_code = code
    f.data = data
    return f


def _lease():
    f = LeaseFrame()
    f.time_to_live = 1000
    f.number_of_requests = 3
    return f


def _streams():
    ka = KeepAliveFrame(b'k')
    ka.flags_respond = True
    bad_ignore = bytearray(_w(to_request_n_frame(9, 1)))
    bad_ignore[3 + 4] |= 0x02                        # IGNORE flag
    bad_ignore = bytes(bad_ignore[:3 + 8])
    bad_ignore = struct.pack('>I', 8)[1:] + bad_ignore[3:]     # truncated REQUEST_N (2 of 4 bytes) with IGNORE
    trunc = struct.pack('>I', 8)[1:] + _w(to_request_n_frame(11, 5))[3:3 + 8]   # truncated REQUEST_N without IGNORE
    unknown = struct.pack('>I', 6)[1:] + struct.pack('>IH', 3, 0x3F << 10)
    zero = b'\x00\x00\x00'
    s0 = (_w(to_setup_frame(Payload(b'sd', b'sm'), b'a/b', b'c/d', timedelta(seconds=1), timedelta(seconds=2)))
          + _w(to_request_response_frame(1, Payload(b'abc', b'm')))
          + zero
          + _w(to_payload_frame(1, Payload(b'xyz'), complete=True))
          + _w(ka))
    s1 = (_w(to_request_stream_frame(3, Payload(b'q'), initial_request_n=7))
          + unknown
          + _w(to_request_n_frame(3, 2))
          + trunc
          + _w(to_cancel_frame(3))
          + _w(_err(5, ErrorCode.APPLICATION_ERROR, b'boom')))
    mp = MetadataPushFrame()
    mp.metadata = b'mm'
    s2 = (_w(to_request_channel_frame(5, Payload(b'c', b'cm'), initial_request_n=1, complete=True))
          + bad_ignore
          + _w(to_fire_and_forget_frame(7, Payload(b'fnf')))
          + _w(_lease())
          + _w(mp)
          + _w(ResumeOKFrame()))
    frag = to_payload_frame(9, Payload(b'D' * 70, b'M' * 10), complete=True)
    frag.fragment_size_bytes = 64
    parts = b''
    while True:
        fr = frag.get_next_fragment(True)
        if fr is None:
            break
        parts += _w(fr)
    s3 = parts + zero + zero + _w(to_request_n_frame(9, 1))
    big_unknown = struct.pack('>I', 26)[1:] + struct.pack('>IH', 3, 0x3F << 10) + b'U' * 20
    s4 = (_w(to_request_n_frame(3, 2)) + big_unknown + _w(to_cancel_frame(3)))      # short frame after a long undecodable one, then silence
    return [s0, s1, s2, s3, s4]


with new_loop():            # frame builders create futures: keep them off a real selector loop
    STREAMS = _streams()
SI = part('stream', 0)
C1 = part('c1', None)
RB = part('readbuf', 1024)


def _one_shot(stream):
    p = FrameParser()
    out, run = drive_agen(p.receive_data(stream), cap=100)
    return [_sig(f) for f in out], bytes(p._buffer)


ONE = [_one_shot(x) for x in STREAMS]       # concrete oracle, computed once at import (outside the tracer)


def _through_tcp(chunks, readbuf):
    loop = new_loop()
    out = []
    with loop:
        inbound = Pipe(loop)
        t = TransportTCP(inbound.reader, Pipe(loop), read_buffer_size=readbuf)

        async def collect():
            while True:
                g = await t.next_frame_generator()
                if g is None:
                    break
                async for f in g:
                    out.append(_sig(f))

        task = loop.create_task(collect())
        for ch in chunks:
            if len(ch) > 0:
                inbound.reader.feed_data(ch)
            loop.run_ready()
        inbound.reader.feed_eof()
        loop.run_ready()
        done = task.done() and task.exception() is None
        residual = bytes(t._frame_parser._buffer)
    return out, residual, done, loop


def c_cut_once(c: int) -> str:
    """
    L2: a concrete stream of valid and malformed frames (STREAMS[SI]) cut at a SYMBOLIC offset and read through
    the real TransportTCP/StreamReader/FrameParser/parse_or_ignore decodes to the same frames as in one shot.

    pre: 0 <= c <= len(STREAMS[SI])
    post: _ in ALLOWED
    """
    s = STREAMS[SI]
    want, wrest = ONE[SI]
    got, rest, done, loop = _through_tcp([s[:c], s[c:]], RB)
    devs = []
    if not done or loop.livelock or loop.errors():
        devs.append('receiver-did-not-finish-cleanly')
    if got != want:
        devs.append('frames-depend-on-chunking')
    if rest != wrest:
        devs.append('residual-depends-on-chunking')
    stats.note(len(want) >= 3, {'stream': SI, 'frames': len(want)})
    return pick_dev(devs, ALLOWED)


def c_cut_twice(c2: int) -> str:
    """
    L2 with two cuts: first cut C1 fixed per process, second symbolic (C1 <= c2).

    pre: C1 <= c2 <= len(STREAMS[SI])
    post: _ in ALLOWED
    """
    s = STREAMS[SI]
    want, wrest = ONE[SI]
    got, rest, done, loop = _through_tcp([s[:C1], s[C1:c2], s[c2:]], RB)
    devs = []
    if not done or loop.livelock or loop.errors():
        devs.append('receiver-did-not-finish-cleanly')
    if got != want:
        devs.append('frames-depend-on-chunking')
    if rest != wrest:
        devs.append('residual-depends-on-chunking')
    stats.note(len(want) >= 3, {'stream': SI, 'frames': len(want), 'c1': C1})
    return pick_dev(devs, ALLOWED)


def c_read_sizes(rb: int) -> str:
    """
    L2 down to single bytes: the whole stream available, but the transport reads rb bytes at a time.

    pre: 1 <= rb <= 7
    post: _ in ALLOWED
    """
    rb = conc(rb, 1, 7)
    s = STREAMS[SI]
    want, wrest = ONE[SI]
    got, rest, done, loop = _through_tcp([s], rb)
    devs = []
    if not done or loop.livelock or loop.errors():
        devs.append('receiver-did-not-finish-cleanly')
    if got != want:
        devs.append('frames-depend-on-chunking')
    if rest != wrest:
        devs.append('residual-depends-on-chunking')
    stats.note(True, {'stream': SI, 'read': rb})
    return pick_dev(devs, ALLOWED)


def w_streams_interesting(i: int) -> bool:
    """
    witness: the concrete streams really contain invalid markers, >= 5 frames and a fragmented frame

    pre: 0 <= i <= 4
    post: not _
    """
    i = conc(i, 0, 4)
    sigs, rest = _one_shot(STREAMS[i])
    return len(sigs) >= 3 and rest == b'' and ('INVALID' in sigs or i == 3)


# ------------------------------------------------------------------------------------------------ message mode
LM = part('lm', 8)
MT = part('mtype', None)


def c_message(msg: bytes) -> str:
    """
    Message transports: one message (symbolic content, length LM) through receive_data(msg, 0) is handed to the
    decoder exactly once and whole; the result is that frame, or one InvalidFrame marker, or nothing (ignored);
    the call terminates and the parser buffer is empty afterwards.  (Decoder replaced by the recording stub of L1:
    delimiting never looks inside; the real decoder on arbitrary messages is C12 layer 1.)

    pre: len(msg) == LM
    post: _ in ALLOWED
    """
    msg = fixlen(msg, LM)
    saved = _fp.parse_or_ignore
    _fp.parse_or_ignore = _stub_parse
    try:
        p = FrameParser()
        out, runaway = drive_agen(p.receive_data(msg, 0), cap=6)
    finally:
        _fp.parse_or_ignore = saved
    devs = []
    if runaway:
        devs.append('message-mode-does-not-terminate')
    else:
        if len(msg) > 0 and msg[0] == 0xFF:
            want = ['INVALID']
        elif len(msg) > 0 and msg[0] == 0xFE:
            want = []
        else:
            want = [('F', bytes(msg))]
        if LM == 0:
            if _norm(out) not in ([], ['INVALID']):      # an empty message contains no frame
                devs.append('empty-message-yields-a-frame')
        elif _norm(out) != want:
            devs.append('message-not-delivered-exactly-once-and-whole')
        if len(p._buffer) != 0:
            devs.append('message-leaves-residual-bytes')
    stats.note(not runaway and len(out) == 1, {'lm': LM})
    return pick_dev(devs, ALLOWED)


def c_message_real(i: int) -> str:
    """
    Message mode with the real decoder on every frame of the concrete streams (each frame body = one message).

    pre: 0 <= i <= 4
    post: _ in ALLOWED
    """
    i = conc(i, 0, 4)
    s = STREAMS[i]
    devs = []
    n = 0
    while len(s) >= 3:
        ln = s[0] * 65536 + s[1] * 256 + s[2]
        body = s[3:3 + ln]
        s = s[3 + ln:]
        p = FrameParser()
        out, runaway = drive_agen(p.receive_data(body, 0), cap=6)
        q = FrameParser()
        ref, _ = drive_agen(q.receive_data(struct.pack('>I', ln)[1:] + body), cap=6)
        n += 1
        if runaway:
            devs.append('message-mode-does-not-terminate')
            continue
        if ln == 0:
            if [_sig(f) for f in out] not in ([], ['INVALID']):
                devs.append('empty-message-yields-a-frame')
        elif [_sig(f) for f in out] != [_sig(f) for f in ref]:
            devs.append('message-mode-differs-from-stream-mode')
        if len(p._buffer) != 0:
            devs.append('message-leaves-residual-bytes')
    stats.note(True, {'stream': i, 'messages': n})
    return pick_dev(devs, ALLOWED)
