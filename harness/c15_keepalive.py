"""C15 Keepalive: echo, periodic emission, timeout detection (DESIGN §5 C15)."""
import struct
from datetime import timedelta

import vlib.env  # noqa: F401
from vlib import stats
from vlib.env import part
from vlib.known import allowed, pick as pick_dev
from vlib.sim import new_loop, SimTransport, provider, generic_dev, pick, conc, concb

from rsocket.frame import KeepAliveFrame, SetupFrame
from rsocket.request_handler import BaseRequestHandler
from rsocket.rsocket_client import RSocketClient
from rsocket.rsocket_server import RSocketServer

ALLOWED = allowed('C15')
HIS = (0, 1, 0x12345678, 0x7FFFFFFF)
DLEN = part('dlen', 2)
ROLE = part('role', 'server')


def fixlen(b, n):
    if n == 0:
        return b''
    return struct.pack('>%dB' % n, *[b[i] for i in range(n)])


def _mk(loop, role, handler=BaseRequestHandler, ka=timedelta(days=20), ml=timedelta(days=24)):
    t = SimTransport(loop)
    if role == 'server':
        ep = RSocketServer(t, handler_factory=handler)
        loop.run_ready()
    else:
        ep = RSocketClient(provider([t]), handler_factory=handler, keep_alive_period=ka, max_lifetime_period=ml)
        loop.create_task(ep.connect())
        loop.run_ready()
    return t, ep


def c_echo(respond: bool, hi: int, lo: int, data: bytes, twice: bool, burst: bool, respond2: bool) -> str:
    """
    Echo (role ROLE): an inbound KEEPALIVE with the respond flag is answered by exactly one KEEPALIVE without the
    flag carrying the same data; one without the flag is never answered.  Position (63 bit: representative high
    word x symbolic low word) and data content symbolic.  `twice`: a second KEEPALIVE with different data (and its
    own respond flag) follows - after the first was answered, or (`burst`) in the same read, before the sender task
    has written the first echo: each echo still carries the data of the KEEPALIVE it answers, in order.

    pre: 0 <= hi <= 3 and 0 <= lo <= 0xFFFFFFFF
    pre: len(data) == DLEN
    post: _ in ALLOWED
    """
    data = fixlen(data, DLEN)
    pos = pick(hi, HIS) * 2 ** 32 + lo
    twice, burst = concb(twice), concb(burst)
    loop = new_loop()
    with loop:
        t, ep = _mk(loop, ROLE)
        devs = []
        data2 = data + b'#second'
        inbound = [(concb(respond), data)] + ([(concb(respond2), data2)] if twice else [])
        before = len(t.sent)
        expected = []
        for i, (resp, d_) in enumerate(inbound):
            f = KeepAliveFrame()
            f.flags_respond = resp
            f.last_received_position = pos
            f.data = d_
            if resp:
                expected.append(d_)
            t.feed_wire(f)
            if not burst or i == len(inbound) - 1:
                loop.run_ready()
                new = [x for _, x in t.sent[before:]]
                kas = [x for x in new if isinstance(x, KeepAliveFrame)]
                if len(new) != len(kas):
                    devs.append('non-KEEPALIVE-frame-in-reaction')
                if len(kas) > len(expected):
                    devs.append('unflagged-KEEPALIVE-answered' if not expected else 'respond-flagged-KEEPALIVE-answered-more-than-once')
                elif len(kas) < len(expected):
                    devs.append('respond-flagged-KEEPALIVE-not-answered-exactly-once')
                else:
                    for k, want in zip(kas, expected):
                        if k.flags_respond:
                            devs.append('echo-carries-respond-flag')
                        if bytes(k.data or b'') != want:
                            devs.append('echo-data-differs')
                        if k.stream_id != 0:
                            devs.append('echo-on-nonzero-stream')
        stats.note(True, {'role': ROLE, 'respond': bool(respond), 'dlen': DLEN, 'twice': twice, 'burst': burst})
        d = generic_dev(loop, ep)
        if d:
            devs.append(d)
        if ROLE == 'client':
            loop.create_task(ep.close())
            loop.run_ready()
    return pick_dev(devs, ALLOWED)


P_US = part('p_us', 500000)


def c_periodic(t_us: int) -> str:
    """
    Periodic emission: a connected client with keep-alive period P_US (configuration, incl. sub-second) and a huge
    lifetime emits respond-flagged KEEPALIVEs exactly at virtual times P, 2P, ..., floor(T/P)*P for a SYMBOLIC
    elapsed time T <= 9.5 P, and no other KEEPALIVE.

    pre: 0 <= t_us <= (19 * P_US) // 2
    post: _ in ALLOWED
    """
    loop = new_loop()
    with loop:
        t, c = _mk(loop, 'client', ka=timedelta(microseconds=P_US), ml=timedelta(days=24))
        loop.advance_us(t_us)
        kas = [(ts, f) for ts, f in t.sent if isinstance(f, KeepAliveFrame)]
        want = t_us // P_US
        devs = []
        stats.note(len(kas) >= 1, {'p_us': P_US, 'ticks': len(kas)})
        if len(kas) != want:
            devs.append('number-of-KEEPALIVEs-differs-from-elapsed-periods')
        for i, (ts, f) in enumerate(kas):
            if ts != (i + 1) * P_US:
                devs.append('KEEPALIVE-not-at-multiple-of-period')
            if not f.flags_respond:
                devs.append('periodic-KEEPALIVE-without-respond-flag')
            if f.stream_id != 0:
                devs.append('KEEPALIVE-on-nonzero-stream')
        if not t.sent or not isinstance(t.sent[0][1], SetupFrame):
            devs.append('first-frame-not-SETUP')
        d = generic_dev(loop, c)
        if d:
            devs.append(d)
        loop.create_task(c.close())
        loop.run_ready()
        n = len(t.sent)
        loop.advance_us(3 * P_US)
        if len(t.sent) != n:
            devs.append('KEEPALIVE-after-close')
    return pick_dev(devs, ALLOWED)


def c_periodic_with_acks(a_us: int, b_us: int, respond: bool) -> str:
    """
    Periodic emission does not depend on what the peer sends: two server KEEPALIVEs (acknowledgements, or
    respond-flagged ones) arrive at SYMBOLIC instants a <= a+b inside the first 3.5 periods - in particular
    shortly before a tick - and the client still emits a respond-flagged KEEPALIVE exactly at P, 2P and 3P and
    no other respond-flagged one.  (seed C15-4)

    pre: 0 <= a_us and 0 <= b_us and a_us + b_us <= (7 * P_US) // 2
    post: _ in ALLOWED
    """
    loop = new_loop()
    with loop:
        t, c = _mk(loop, 'client', ka=timedelta(microseconds=P_US), ml=timedelta(days=24))
        total = (7 * P_US) // 2
        loop.advance_us(a_us)
        for gap in (b_us, total - a_us - b_us):
            f = KeepAliveFrame()
            f.flags_respond = respond
            t.feed_wire(f)
            loop.run_ready()
            loop.advance_us(gap)
        ticks = [(ts, f) for ts, f in t.sent if isinstance(f, KeepAliveFrame) and f.flags_respond]
        devs = []
        stats.note(len(ticks) >= 1, {'p_us': P_US, 'ticks': len(ticks)})
        if len(ticks) != 3:
            devs.append('number-of-KEEPALIVEs-differs-from-elapsed-periods')
        for i, (ts, f) in enumerate(ticks):
            if ts != (i + 1) * P_US:
                devs.append('KEEPALIVE-not-at-multiple-of-period')
        d = generic_dev(loop, c)
        if d:
            devs.append(d)
    return pick_dev(devs, ALLOWED)


L_US = part('l_us', 3000000)
NGAPS = part('ngaps', 2)


class _TH(BaseRequestHandler):
    def __init__(self):
        self.timeouts = []

    async def on_keepalive_timeout(self, time_since_last_keepalive, rsocket):
        self.timeouts.append(1)


def c_timeout(g1: int, g2: int, g3: int, s_us: int, r1: bool, r2: bool, r3: bool) -> str:
    """
    Time-out detection: max lifetime L_US (configuration), keep-alive period beyond the horizon.  The server
    sends a KEEPALIVE (an acknowledgement, or - r_i - a respond-flagged one of its own: either is a sign of life)
    after SYMBOLIC gaps g_i in [0, 2.5 L], then stays silent for a SYMBOLIC time s in [0, 3.5 L].
    If every gap <= L the timeout callback is not invoked while the silence is <= L; once the silence exceeds 2 L
    it has been invoked.

    pre: 0 <= g1 <= (5 * L_US) // 2 and 0 <= g2 <= (5 * L_US) // 2 and 0 <= g3 <= (5 * L_US) // 2
    pre: 0 <= s_us <= (7 * L_US) // 2
    post: _ in ALLOWED
    """
    loop = new_loop()
    with loop:
        t, c = _mk(loop, 'client', handler=_TH, ka=timedelta(days=20), ml=timedelta(microseconds=L_US))
        h = c._handler
        devs = []
        gaps = [g1, g2, g3][:NGAPS]
        resp = [concb(r) for r in (r1, r2, r3)[:NGAPS]]
        all_short = True
        for gi, g in enumerate(gaps):
            loop.advance_us(g)
            if g > L_US:
                all_short = False
            if all_short and h.timeouts:
                devs.append('timeout-callback-although-KEEPALIVEs-arrive-within-lifetime')
            f = KeepAliveFrame()
            f.flags_respond = resp[gi]
            t.feed_wire(f)
            loop.run_ready()
        before = len(h.timeouts)
        loop.advance_us(s_us)
        stats.note(len(h.timeouts) >= 1, {'l_us': L_US, 'gaps': NGAPS, 'timeouts': len(h.timeouts)})
        if all_short and s_us <= L_US and h.timeouts:
            devs.append('timeout-callback-although-silence-within-lifetime')
        if all_short and s_us > 2 * L_US and len(h.timeouts) == before:
            devs.append('no-timeout-callback-after-two-lifetimes-of-silence')
        if loop.livelock or loop.errors():
            devs.append('loop-error')
        loop.create_task(c.close())
        loop.run_ready()
    return pick_dev(devs, ALLOWED)
