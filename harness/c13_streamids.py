"""C13 Stream ids: right parity, never zero, never a live id, wrap-around (DESIGN §5 C13)."""
import vlib.env  # noqa: F401
from typing import Dict, List

from vlib import stats
from vlib.known import allowed
from vlib.sim import new_loop, SimTransport, provider, Rec, wire, generic_dev, pick, conc

from rsocket.stream_control import StreamControl, MAX_STREAM_ID
from rsocket.exceptions import RSocketStreamAllocationFailure
from rsocket.error_codes import ErrorCode
from rsocket.frame import ErrorFrame, RequestResponseFrame, PayloadFrame
from rsocket.frame_builders import (to_request_response_frame, to_request_stream_frame, to_request_channel_frame,
                                    to_fire_and_forget_frame)
from rsocket.helpers import create_future
from rsocket.payload import Payload
from rsocket.request_handler import BaseRequestHandler
from rsocket.rsocket_client import RSocketClient
from rsocket.rsocket_server import RSocketServer
from datetime import timedelta

ALLOWED = allowed('C13')


def ref_next(cur, active, mask):
    """reference allocator: first id after cur (step 2, cyclic in the masked space) that is non-zero and free"""
    c = cur
    for _ in range(mask // 2 + 2 if mask < 64 else len(active) + 3):
        c = (c + 2) & mask
        if c != 0 and c not in active:
            return c
    return None


def c_alloc_step(cur: int, streams: Dict[int, int]) -> str:
    """
    One allocation from an ARBITRARY state at full 31-bit width (inductive step).

    pre: 0 <= cur <= 0x7FFFFFFF
    pre: len(streams) <= 3
    pre: all(1 <= k <= 0x7FFFFFFF for k in streams)
    post: _ in ALLOWED
    """
    sc = StreamControl(1)
    sc._current_stream_id = cur
    sc._streams = streams
    try:
        r = sc.allocate_stream()
    except RSocketStreamAllocationFailure:
        return 'allocation-failure-with-free-ids'
    stats.note(True)
    if r == 0:
        return 'allocated-zero'
    if not (1 <= r <= MAX_STREAM_ID):
        return 'allocated-out-of-range'
    if (r & 1) != (cur & 1):
        return 'parity-changed'
    if r in streams:
        return 'allocated-live-id'
    if r != ref_next(cur, streams, MAX_STREAM_ID):
        return 'not-first-free-id-in-cyclic-order'
    if sc._current_stream_id != r:
        return 'current-id-not-updated'
    return ''


def w_alloc_wraps(cur: int, streams: Dict[int, int]) -> bool:
    """
    witness: the bound contains a wrap-around that also has to skip a live id

    pre: 0 <= cur <= 0x7FFFFFFF
    pre: len(streams) <= 3
    pre: all(1 <= k <= 0x7FFFFFFF for k in streams)
    post: not _
    """
    sc = StreamControl(1)
    sc._current_stream_id = cur
    sc._streams = streams
    r = sc.allocate_stream()
    return r < cur and r > 2


W = vlib.env.part('w', 3)
OPS = vlib.env.part('ops', 4)
PARITY = vlib.env.part('parity', 1)
PREFIX = vlib.env.part('prefix', [])
NOWN = len([i for i in range(1, 2 ** W) if (i & 1) == PARITY])
ALPHA = NOWN + 3          # finish(own id) x NOWN, allocate+register, register(foreign id), finish(foreign id)


def alphabet_size(w, parity):
    return len([i for i in range(1, 2 ** w) if (i & 1) == parity]) + 3


def c_history_small(ops: List[int]) -> str:
    """
    Histories PREFIX + ops of allocate+register / register(foreign id) / finish(id) on an id space reduced to
    W bits (as the suite does), compared step by step with the reference allocator; failure iff no id of the
    parity is free.  (The monitor is prefix-closed, so shorter histories are covered by longer ones.)

    pre: len(ops) <= OPS - len(PREFIX)
    pre: all(0 <= o < ALPHA for o in ops)
    post: _ in ALLOWED
    """
    parity = PARITY
    mask = 2 ** W - 1
    sc = StreamControl(1 if parity else 2)
    sc._maximum_stream_id = mask
    sc._current_stream_id = sc._current_stream_id & mask
    ref_cur = sc._current_stream_id
    active = set()
    allocs = 0
    wrapped = 0
    failures = 0
    foreign = 2 if parity else 1
    n = 0
    for o in list(PREFIX) + list(ops):
        n += 1
        if o == NOWN:                       # allocate + register
            want = ref_next(ref_cur, active, mask)
            try:
                got = sc.allocate_stream()
            except RSocketStreamAllocationFailure:
                got = None
            if got != want:
                return 'allocation-differs-from-reference' if want is not None and got is not None else (
                    'allocation-failed-with-free-id' if got is None else 'allocation-succeeded-with-no-free-id')
            if got is not None:
                if got == 0 or (got & 1) != parity or got in active:
                    return 'bad-id'
                if got < ref_cur:
                    wrapped += 1
                sc.register_stream(got, object())
                active.add(got)
                ref_cur = got
                allocs += 1
            else:
                failures += 1
                # the property does not fix the cursor after a failed search: resynchronise the reference
                ref_cur = sc._current_stream_id
                if (ref_cur & 1) != parity:
                    return 'parity-changed-after-failure'
        elif o == NOWN + 1:
            sc.register_stream(foreign, object())
            active.add(foreign)
        elif o == NOWN + 2:
            sc.finish_stream(foreign)
            active.discard(foreign)
        else:                                   # finish(own id number o)
            i = 2 * o + (1 if parity else 2)
            sc.finish_stream(i)
            active.discard(i)
        if set(sc._streams.keys()) != active:
            return 'table-differs-from-reference'
    stats.note(allocs >= 2, {'allocs': allocs, 'wrapped': wrapped, 'failures': failures, 'ops': n})
    return ''


class _H(BaseRequestHandler):
    def __init__(self):
        self.futs = []

    async def request_response(self, payload):
        f = create_future()
        self.futs.append(f)
        return f

    async def request_stream(self, payload):
        from vlib.sim import RecPub
        return RecPub()

    async def request_channel(self, payload):
        from vlib.sim import RecPub
        return RecPub(), Rec()


def _req(kind, sid):
    if kind == 0:
        return to_request_response_frame(sid, Payload(b'q'))
    if kind == 1:
        return to_request_stream_frame(sid, Payload(b'q'), initial_request_n=1)
    if kind == 2:
        return to_request_channel_frame(sid, Payload(b'q'), initial_request_n=1)
    return to_fire_and_forget_frame(sid, Payload(b'q'))


def c_first_ids(n: int) -> str:
    """
    Endpoint level: a client numbers its streams 1, 3, 5 ..., a server 2, 4, 6 ... (ids observed on the wire).

    pre: 1 <= n <= 3
    post: _ in ALLOWED
    """
    loop = new_loop()
    with loop:
        tc = SimTransport(loop)
        c = RSocketClient(provider([tc]), keep_alive_period=timedelta(seconds=1000),
                          max_lifetime_period=timedelta(seconds=2000))
        loop.create_task(c.connect())
        loop.run_ready()
        ts = SimTransport(loop)
        s = RSocketServer(ts)
        loop.run_ready()
        for i in range(n):
            c.request_response(Payload(b'x'))
            s.request_response(Payload(b'y'))
        loop.run_ready()
        cid = [f.stream_id for f in tc.frames() if isinstance(f, RequestResponseFrame)]
        sid = [f.stream_id for f in ts.frames() if isinstance(f, RequestResponseFrame)]
        stats.note(True, {'client_ids': cid, 'server_ids': sid})
        if cid != [1 + 2 * i for i in range(n)]:
            return 'client-ids-not-1-3-5'
        if sid != [2 + 2 * i for i in range(n)]:
            return 'server-ids-not-2-4-6'
        d = generic_dev(loop, c, s)
        loop.create_task(c.close())
        loop.run_ready()
        return d


IDS = (1, 3, 0x7FFFFFFF, 2, 0x7FFFFFFE)
K1 = vlib.env.part('k1', 0)


def c_reject_live_id(k1: int, k2: int, i1: int, i2: int) -> str:
    """
    An incoming request (4 request types) that reuses an id still active on the receiver - opened by the peer
    or by the receiver itself (id 2) - is answered ERROR(REJECTED) on that id and does not replace the
    registered handler; a request on a free id is accepted.  Ids are selectors over IDS (a symbolic dict key
    is enumerated by the engine); full-width ids are covered by c_id_available_step.

    pre: k1 == K1 and 0 <= k2 <= 3
    pre: 0 <= i1 <= 4 and 0 <= i2 <= 4
    post: _ in ALLOWED
    """
    s1 = pick(i1, IDS)
    target = pick(i2, IDS)
    k2 = conc(k2, 0, 3)
    loop = new_loop()
    with loop:
        t = SimTransport(loop)
        s = RSocketServer(t, handler_factory=_H)
        loop.run_ready()
        mine = s.request_response(Payload(b'mine'))       # own live id 2
        loop.run_ready()
        n1 = len(t.sent)
        t.feed_wire(_req(k1, s1))
        loop.run_ready()
        table = s._stream_control._streams
        live = dict(table)
        first_collides = s1 == 2
        if first_collides:
            errs = [f for _, f in t.sent[n1:] if isinstance(f, ErrorFrame)]
            if len(errs) != 1 or errs[0].stream_id != 2 or errs[0].error_code != ErrorCode.REJECTED:
                return 'live-id-reuse-not-rejected'
        n0 = len(t.sent)
        t.feed_wire(_req(k2, target))
        loop.run_ready()
        new = [f for _, f in t.sent[n0:]]
        collide = target in live
        stats.note(collide, {'collide': collide, 'k1': k1, 'k2': k2, 'id1': s1, 'id2': target})
        if collide:
            errs = [f for f in new if isinstance(f, ErrorFrame)]
            if len(errs) != 1 or errs[0].stream_id != target or errs[0].error_code != ErrorCode.REJECTED:
                return 'live-id-reuse-not-rejected'
            if len(new) != 1:
                return 'extra-frames-on-rejection'
            if table.get(target) is not live[target]:
                return 'live-stream-replaced'
            if len(table) != len(live):
                return 'table-changed-on-rejection'
        else:
            if any(isinstance(f, ErrorFrame) for f in new):
                return 'free-id-rejected'
            for sid in live:
                if table.get(sid) is not live[sid]:
                    return 'other-stream-disturbed'
            if k2 != 3 and target not in table:
                return 'accepted-request-not-registered'
        if mine.done():
            return 'own-request-disturbed'
        return generic_dev(loop, s)


def c_reject_live_id_fragmented(k2: int, when: int, tid: int) -> str:
    """
    The reuse condition is judged when the request is COMPLETE: a request (4 types) that arrives in two fragments
    (FOLLOWS, then the closing PAYLOAD) on id `target` while the receiver opens a request of its own - which its
    allocator numbers 2 - before the first fragment (when=0), between the two fragments (when=1) or after the
    last one (when=2).  If the id is live when the last fragment arrives the request is answered ERROR(REJECTED)
    on that id, does not reach the application and does not replace the receiver's own stream; otherwise it is
    accepted and the own request then gets the next id.  (seed C13-4)

    pre: 0 <= k2 <= 3 and 0 <= when <= 2 and 0 <= tid <= 1
    post: _ in ALLOWED
    """
    k2 = conc(k2, 0, 3)
    when = conc(when, 0, 2)
    target = 2 if conc(tid, 0, 1) == 0 else 4
    loop = new_loop()
    with loop:
        t = SimTransport(loop)
        s = RSocketServer(t, handler_factory=_H)
        loop.run_ready()
        mine = None
        if when == 0:
            mine = s.request_response(Payload(b'mine'))
            loop.run_ready()
        first = _req(k2, target)
        first.flags_follows = True
        t.feed_wire(first)
        loop.run_ready()
        if when == 1:
            mine = s.request_response(Payload(b'mine'))
            loop.run_ready()
        table = s._stream_control._streams
        live = dict(table)
        n0 = len(t.sent)
        last = PayloadFrame()
        last.stream_id = target
        last.data = b'-tail'
        last.flags_next = True
        t.feed_wire(last)
        loop.run_ready()
        new = [f for _, f in t.sent[n0:]]
        collide = target in live
        stats.note(collide, {'collide': collide, 'k2': k2, 'when': when, 'target': target})
        errs = [f for f in new if isinstance(f, ErrorFrame)]
        if collide:
            if len(errs) != 1 or errs[0].stream_id != target or errs[0].error_code != ErrorCode.REJECTED:
                return 'live-id-reuse-not-rejected'
            if table.get(target) is not live[target]:
                return 'live-stream-replaced'
            if len(table) != len(live):
                return 'table-changed-on-rejection'
        else:
            if errs:
                return 'free-id-rejected'
            if k2 != 3 and target not in table:
                return 'accepted-request-not-registered'
            for sid in live:
                if table.get(sid) is not live[sid]:
                    return 'other-stream-disturbed'
        if when == 2:
            mine = s.request_response(Payload(b'mine'))
            loop.run_ready()
            own = [sid for sid, h in table.items() if sid not in live and sid != target]
            if k2 != 3 and target == 2 and own != [4]:
                return 'own-request-got-a-live-id'
        if mine is not None and mine.done():
            return 'own-request-disturbed'
        return generic_dev(loop, s)


def c_id_available_step(sid: int, streams: Dict[int, int]) -> str:
    """
    Full-width step: assert_stream_id_available(sid) raises REJECTED iff sid is in the (symbolic) table and
    never changes the table.

    pre: 0 <= sid <= 0x7FFFFFFF
    pre: len(streams) <= 3
    pre: all(1 <= k <= 0x7FFFFFFF for k in streams)
    post: _ in ALLOWED
    """
    from rsocket.exceptions import RSocketStreamIdInUse
    sc = StreamControl(2)
    sc._streams = streams
    before = len(streams)
    present = sid in streams
    try:
        sc.assert_stream_id_available(sid)
        raised = False
    except RSocketStreamIdInUse as e:
        raised = True
        if e.error_code != ErrorCode.REJECTED:
            return 'wrong-error-code'
    stats.note(present)
    if raised != present:
        return 'availability-check-wrong'
    if len(sc._streams) != before:
        return 'table-changed'
    return ''
