"""C03 Fragmentation and reassembly are exact and respect the size limit (DESIGN §5 C03)."""
import vlib.env  # noqa: F401
from vlib import stats
from vlib.known import allowed, pick as pick_dev
from vlib.span import Span, SpanError, SpanReader
from vlib.env import part

import rsocket.frame_fragmenter as _ff
from rsocket.exceptions import RSocketError
from rsocket.frame import (PayloadFrame, RequestStreamFrame, RequestChannelFrame, RequestResponseFrame,
                           RequestFireAndForgetFrame, parse_or_ignore, serialize_with_frame_size_header)
from rsocket.frame_fragment_cache import FrameFragmentCache
from rsocket.rsocket_base import RSocketBase

ALLOWED = allowed('C03')
CLS = (PayloadFrame, RequestResponseFrame, RequestFireAndForgetFrame, RequestStreamFrame, RequestChannelFrame)
CLS_I = part('cls', 0)
SPANS = part('spans', True)

if SPANS:
    # the fragmenter wraps data/metadata in BytesIO (S4); for spans the reader is the span reader
    class _Reader:
        def __new__(cls, data=b''):
            if isinstance(data, Span):
                return SpanReader(data)
            return vlib.env.PyBytesReader(data)
    _ff.BytesIO = _Reader


def _blen(x):
    return 0 if x is None else len(x)


def _monitor(f, cls_i, dlen, mlen, fsize, lenhdr, complete, n, devs, span_mode):
    """drive get_next_fragment -> serialize_frame_prefix -> cache; returns (fragments, reassembled frame)"""
    cache = FrameFragmentCache()
    out = None
    i = 0
    seen_data = False
    frames = []
    hdr = 6 + (4 if cls_i >= 3 else 0)
    single_len = hdr + ((3 + mlen) if mlen > 0 else 0) + dlen + (3 if lenhdr else 0)
    while True:
        fr = f.get_next_fragment(lenhdr)
        if fr is None:
            break
        i += 1
        if i > 12:
            devs.append('fragment-generator-does-not-terminate')
            break
        if out is not None:
            devs.append('fragment-after-last')
            break
        fr.serialize_frame_prefix()
        wire = fr.length + (3 if lenhdr else 0)
        has_md = _blen(fr.metadata) > 0
        has_d = _blen(fr.data) > 0
        if fsize is not None and wire > fsize:
            if has_md and wire - fsize <= 3:
                devs.append('C03:oversize:fragment-with-metadata:+3')
            else:
                devs.append('fragment-larger-than-configured-size')
        if i == 1:
            if type(fr) is not CLS[cls_i]:
                devs.append('first-fragment-wrong-type')
            if cls_i >= 3 and fr.initial_request_n != n:
                devs.append('first-fragment-lost-request-n')
        elif type(fr) is not PayloadFrame:
            devs.append('later-fragment-not-PAYLOAD')
        if seen_data and has_md:
            devs.append('metadata-after-data')
        if has_d:
            seen_data = True
        if fr.flags_follows and fr.flags_complete:
            devs.append('complete-on-non-last-fragment')
        if i > 1 and not has_md and not has_d:
            devs.append('empty-continuation-fragment')
        frames.append(fr)
        try:
            out = cache.append(fr)
        except SpanError:
            devs.append('reassembly-merges-non-contiguous-content')
            return i, None
        if bool(fr.flags_follows) != (out is None):
            devs.append('follows-flag-inconsistent-with-position')
    if out is None:
        devs.append('no-reassembled-frame')
        return i, None
    if fsize is not None and single_len <= fsize and i != 1:
        devs.append('frame-that-fits-was-fragmented')
    if fsize is None and i != 1:
        devs.append('fragmented-without-fragment-size')
    if type(out) is not CLS[cls_i]:
        devs.append('reassembled-wrong-type')
    if cls_i >= 3 and out.initial_request_n != n:
        devs.append('reassembled-lost-request-n')
    if cls_i in (0, 4) and bool(out.flags_complete) != complete:
        devs.append('reassembled-lost-complete-flag' if complete else 'reassembled-gained-complete-flag')
    if len(cache._frames_by_stream_id) != 0:
        devs.append('cache-not-empty-after-last-fragment')
    return i, out


def c_span_pipeline(dlen: int, mlen: int, fsize: int, lenhdr: bool, complete: bool, n: int) -> str:
    """
    Whole pipeline fragment -> frame length -> reassembly for frame class CLS_I, payload content opaque spans,
    lengths and fragment size symbolic.

    pre: 64 <= fsize <= FMAX
    pre: 0 <= dlen <= 2 * fsize + 4
    pre: 0 <= mlen <= 2 * fsize + 4
    pre: 1 <= n <= 0x7fffffff
    post: _ in ALLOWED
    """
    cls_i = CLS_I
    f = CLS[cls_i]()
    f.stream_id = 5
    if cls_i >= 3:
        f.initial_request_n = n
    if cls_i in (0, 4):
        f.flags_complete = complete
    if vlib.env.REPLAY:      # replays use real bytes of the counterexample's lengths
        f.data = bytes((7 * k + 1) % 251 for k in range(dlen))
        f.metadata = bytes((5 * k + 3) % 241 for k in range(mlen))
        orig = (f.data, f.metadata)
    else:
        f.data = Span('d', 0, dlen)
        f.metadata = Span('m', 0, mlen)
    f.fragment_size_bytes = fsize
    devs = []
    i, out = _monitor(f, cls_i, dlen, mlen, fsize, lenhdr, complete, n, devs, True)
    if out is not None:
        od, om = out.data, out.metadata
        if _blen(od) != dlen or _blen(om) != mlen:
            devs.append('reassembled-length-differs')
        elif vlib.env.REPLAY:
            if bytes(od or b'') != orig[0]:
                devs.append('reassembled-data-differs')
            if bytes(om or b'') != orig[1]:
                devs.append('reassembled-metadata-differs')
        else:
            if dlen > 0 and not (isinstance(od, Span) and od.off == 0 and od.tag == 'd'):
                devs.append('reassembled-data-differs')
            if mlen > 0 and not (isinstance(om, Span) and om.off == 0 and om.tag == 'm'):
                devs.append('reassembled-metadata-differs')
    stats.note(i >= 2, {'fragments': i})
    return pick_dev(devs, ALLOWED)


FMAX = part('fmax', 100000)


def w_three_fragments_meta_boundary(dlen: int, mlen: int, fsize: int, lenhdr: bool) -> bool:
    """
    witness: the bound contains >= 3 fragments with metadata ending exactly at a fragment boundary and data after

    pre: 64 <= fsize <= FMAX
    pre: 0 <= dlen <= 2 * fsize + 4
    pre: 0 <= mlen <= 2 * fsize + 4
    post: not _
    """
    f = PayloadFrame()
    f.stream_id = 5
    f.data = Span('d', 0, dlen)
    f.metadata = Span('m', 0, mlen)
    f.fragment_size_bytes = fsize
    frs = []
    while True:
        fr = f.get_next_fragment(lenhdr)
        if fr is None or len(frs) > 12:
            break
        frs.append(fr)
    return (len(frs) >= 3 and _blen(frs[0].metadata) > 0 and _blen(frs[0].data) == 0
            and _blen(frs[1].metadata) == 0 and _blen(frs[1].data) > 0)


DLEN = part('dlen', 0)
MLEN = part('mlen', 0)
FSIZE = part('fsize', 64)
LENHDR = part('lenhdr', True)


def c_bytes_pipeline(data: bytes, meta: bytes, complete: bool, n: int) -> str:
    """
    Tie to real bytes: the same pipeline on symbolic byte CONTENT (lengths fixed per process at boundary tuples)
    through the real serialize -> parse_or_ignore -> cache; byte equality and measured wire size.

    pre: len(data) == DLEN and len(meta) == MLEN
    pre: 1 <= n <= 0x7fffffff
    post: _ in ALLOWED
    """
    cls_i = CLS_I
    f = CLS[cls_i]()
    f.stream_id = 5
    if cls_i >= 3:
        f.initial_request_n = n
    if cls_i in (0, 4):
        f.flags_complete = complete
    f.data = data
    f.metadata = meta
    f.fragment_size_bytes = FSIZE
    devs = []
    cache = FrameFragmentCache()
    out = None
    i = 0
    while True:
        fr = f.get_next_fragment(LENHDR)
        if fr is None:
            break
        i += 1
        if i > 12:
            devs.append('fragment-generator-does-not-terminate')
            break
        raw = serialize_with_frame_size_header(fr) if LENHDR else fr.serialize()
        if len(raw) > FSIZE:
            if _blen(fr.metadata) > 0 and len(raw) - FSIZE <= 3:
                devs.append('C03:oversize:fragment-with-metadata:+3')
            else:
                devs.append('fragment-larger-than-configured-size')
        back = parse_or_ignore(raw[3:] if LENHDR else raw)
        if back is None:
            devs.append('fragment-does-not-decode')
            break
        if out is not None:
            devs.append('fragment-after-last')
        out = cache.append(back)
    if out is None:
        devs.append('no-reassembled-frame')
    else:
        if bytes(out.data or b'') != data:
            devs.append('reassembled-data-differs')
        if bytes(out.metadata or b'') != meta:
            devs.append('reassembled-metadata-differs')
        if type(out) is not CLS[cls_i]:
            devs.append('reassembled-wrong-type')
        if cls_i >= 3 and out.initial_request_n != n:
            devs.append('reassembled-lost-request-n')
        if cls_i in (0, 4) and bool(out.flags_complete) != complete:
            devs.append('reassembled-lost-complete-flag' if complete else 'reassembled-gained-complete-flag')
        if cls_i == 0 and (DLEN > 0 or MLEN > 0) and not out.flags_next:
            devs.append('payload-with-content-lost-next-flag')
    stats.note(i >= 2, {'fragments': i, 'dlen': DLEN, 'mlen': MLEN})
    return pick_dev(devs, ALLOWED)


def c_no_fragment_size(dlen: int, mlen: int, lenhdr: bool, complete: bool, n: int) -> str:
    """
    Without a configured fragment size every frame is emitted as exactly one frame with the whole content.

    pre: 0 <= dlen <= 100000 and 0 <= mlen <= 100000
    pre: 1 <= n <= 0x7fffffff
    post: _ in ALLOWED
    """
    cls_i = CLS_I
    f = CLS[cls_i]()
    f.stream_id = 5
    if cls_i >= 3:
        f.initial_request_n = n
    if cls_i in (0, 4):
        f.flags_complete = complete
    f.data = Span('d', 0, dlen)
    f.metadata = Span('m', 0, mlen)
    f.fragment_size_bytes = None
    devs = []
    i, out = _monitor(f, cls_i, dlen, mlen, None, lenhdr, complete, n, devs, True)
    if out is not None and (_blen(out.data) != dlen or _blen(out.metadata) != mlen):
        devs.append('reassembled-length-differs')
    stats.note(True, {'fragments': i})
    return pick_dev(devs, ALLOWED)


def c_min_fragment_size(fs: int) -> str:
    """
    The endpoint constructor check accepts exactly the sizes >= 64 (the error message formats the value, which
    the engine realises, hence the small range around the boundary).

    pre: -3 <= fs <= 300
    post: _ in ALLOWED
    """
    try:
        RSocketBase._assert_valid_fragment_size(None, fs)
        ok = True
    except RSocketError:
        ok = False
    stats.note(True)
    if ok != (fs >= 64):
        return 'minimum-fragment-size-check-wrong'
    return ''
