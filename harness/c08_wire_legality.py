"""C08 Frames emitted are legal RSocket for the emitter's role (DESIGN §5 C08) - role automaton over harness/hist.py."""
import vlib.env  # noqa: F401
from vlib import stats
from vlib.known import allowed, pick as pick_dev
from vlib.sim import conc
from vlib.roles import wire_devs

from harness.hist import run_history, describe, NA, K, PREFIX, ROLE, LEASE
from harness.c07_termination import _pad

ALLOWED = allowed('C08')
FREE = K - len(PREFIX)
NSYM = vlib.env.part('nsym', False)     # request-n symbolic at full width (a few partitions); elsewhere only its sign matters


def c_history(e1: int, e2: int, e3: int, e4: int, a1: bool, a2: bool, a3: bool, a4: bool, b1: bool, b2: bool,
              b3: bool, b4: bool, c1: bool, c2: bool, c3: bool, c4: bool, n: int) -> str:
    """
    K events on one interaction in role ROLE (plus a bystander request-response), configuration FRAG / LEASE /
    REQ_FOLLOWS; every frame the endpoint emitted is judged by the role automaton (vlib/roles.py) against what it
    had received at that moment.  n is the (31-bit symbolic) request-n used by REQUEST_N events and as the
    initial request-n; n <= 0 must be refused by initial_request_n before anything reaches the wire.

    pre: 0 <= e1 < NA and 0 <= e2 < NA and 0 <= e3 < NA and 0 <= e4 < NA
    pre: -2 <= n <= 0x7fffffff
    post: _ in ALLOWED
    """
    if n <= 0 and ROLE not in ('rs_req', 'ch_req'):
        return ''            # a non-positive n only makes sense as the application's initial_request_n argument
    ev = list(PREFIX) + [conc(e, 0, NA - 1) for e in (e1, e2, e3, e4)[:FREE]]
    n_eff = n if NSYM else (5 if n > 0 else n)
    o = run_history(ev, _pad((a1, a2, a3, a4), len(ev)), _pad((b1, b2, b3, b4), len(ev)),
                    _pad((c1, c2, c3, c4), len(ev)), n_eff)
    devs = []
    if n <= 0 and o.role in ('rs_req', 'ch_req') and o.init_error is None:
        devs.append('non-positive-initial-request-n-accepted')
    for d in wire_devs(o.t.ordered_trace(), o.role.endswith('_req')):
        if LEASE and d.startswith('C08:new-stream-does-not-begin-with-a-request-frame'):
            d = 'C08:lease:frame-overtakes-lease-blocked-request'
        devs.append(d)
    if o.loop.errors():
        devs.append('loop-exception-handler-called')
    if o.loop.livelock:
        devs.append('livelock')
    stats.note(len(o.t.sent) >= 3, describe(o))
    return pick_dev(devs, ALLOWED)
