"""C06 Request-n flow control: emission never exceeds granted credit (DESIGN §5 C06)."""
from datetime import timedelta

import vlib.env  # noqa: F401
from vlib import stats
from vlib.env import part
from vlib.known import allowed, pick as pick_dev
from vlib.sim import new_loop, SimTransport, provider, Rec, generic_dev, conc, concb, RecPub

from rsocket.frame import (PayloadFrame, RequestNFrame, RequestStreamFrame, RequestChannelFrame, ErrorFrame)
from rsocket.frame_builders import (to_request_stream_frame, to_request_n_frame, to_request_channel_frame,
                                    to_payload_frame)
from rsocket.payload import Payload
from rsocket.request_handler import BaseRequestHandler
from rsocket.rsocket_client import RSocketClient
from rsocket.rsocket_server import RSocketServer
from rsocket.streams.stream_from_async_generator import StreamFromAsyncGenerator
from rsocket.streams.stream_from_generator import StreamFromGenerator

ALLOWED = allowed('C06')
SRC = part('src', 'gen')        # gen | agen | rx4 (reactivex plain observable) | rx4bp (reactivex back-pressure factory) | rx3 | rx3bp
M = part('m', 3)                # number of elements the source holds
COL = part('col', False)        # complete flag on the last element (generator sources)
ROLE = part('role', 'stream')   # stream: responder of request-stream; chan: responder of request-channel; creq: channel requester


def _elements(m):
    return [Payload(bytes([65 + i])) for i in range(m)]


def _publisher(src, m, col, asked):
    """the library's own stream sources; `asked` records what a back-pressure-aware factory was asked for"""
    els = _elements(m)
    if src == 'gen':
        def gen():
            for i, p in enumerate(els):
                yield p, (col and i == m - 1)
        return StreamFromGenerator(gen)
    if src == 'agen':
        async def agen():
            for i, p in enumerate(els):
                yield p, (col and i == m - 1)
        return StreamFromAsyncGenerator(agen)
    if src in ('rx4', 'rx4bp'):
        import reactivex
        from rsocket.reactivex.back_pressure_publisher import (observable_to_publisher, from_observable_with_backpressure,
                                                              observable_from_async_generator)
        if src == 'rx4':
            return observable_to_publisher(reactivex.from_iterable(els))

        async def agen2():
            for p in els:
                yield p

        def factory(bp):
            bp.subscribe(on_next=lambda n: asked.append(n))
            return observable_from_async_generator(agen2().__aiter__(), bp)
        return observable_to_publisher(from_observable_with_backpressure(factory))
    import rx
    from rsocket.rx_support.back_pressure_publisher import (observable_to_publisher as o2p3,
                                                           from_observable_with_backpressure as bp3,
                                                           observable_from_async_generator as ofag3)
    if src == 'rx3':
        return o2p3(rx.from_iterable(els))

    async def agen3():
        for p in els:
            yield p

    def factory3(bp):
        bp.subscribe(on_next=lambda n: asked.append(n))
        return ofag3(agen3().__aiter__(), bp)
    return o2p3(bp3(factory3))


def _nexts(t, sid):
    return [f for f in t.frames(sid) if isinstance(f, PayloadFrame) and f.flags_next]


def _completes(t, sid):
    return [f for f in t.frames(sid) if isinstance(f, PayloadFrame) and f.flags_complete]


def c_responder_credit(n0: int, n1: int, n2: int, early: bool, split: bool, rcancel: bool) -> str:
    """
    Responder of a request-stream / request-channel (ROLE) over the library stream source SRC holding M elements:
    initial request-n n0 and two REQUEST_N (n1, n2) as 31-bit symbolic integers; `early` delivers the first
    REQUEST_N in the same read as the request (before the feeder tasks ran), `split` delivers both REQUEST_N
    back to back; on a channel the responder's application may cancel the requester's direction (`rcancel`) before
    further credit arrives - its own publisher is still owed every element it gets credit for.
    At every quiescent point  #PAYLOAD(next) on the wire == min(M, credit so far)  (never more,
    and everything once enough credit was granted), in order; completion only after the last element.

    pre: 1 <= n0 <= 0x7FFFFFFF and 1 <= n1 <= 0x7FFFFFFF and 1 <= n2 <= 0x7FFFFFFF
    post: _ in ALLOWED
    """
    m = M
    asked = []
    recs = []

    class H(BaseRequestHandler):
        async def request_stream(self, payload):
            return _publisher(SRC, m, COL, asked)

        async def request_channel(self, payload):
            recs.append(Rec())
            return _publisher(SRC, m, COL, asked), recs[0]

    early = concb(early)
    split = concb(split)
    loop = new_loop()
    with loop:
        t = SimTransport(loop)
        s = RSocketServer(t, handler_factory=H)
        loop.run_ready()
        if ROLE == 'stream':
            t.feed_wire(to_request_stream_frame(1, Payload(b'q'), initial_request_n=n0))
        else:
            t.feed_wire(to_request_channel_frame(1, Payload(b'q'), initial_request_n=n0))
        devs = []
        credit = n0
        if early:
            t.feed_wire(to_request_n_frame(1, n1))
            credit += n1
        loop.run_ready()

        def check(where):
            got = len(_nexts(t, 1))
            want = min(m, credit)
            if got > credit:
                devs.append('more-elements-than-credit')
            elif got > want:
                devs.append('more-elements-than-source-holds')
            elif got < want:
                devs.append('element-withheld-despite-credit:' + where)

        check('after-request')
        if ROLE == 'chan' and concb(rcancel) and recs and recs[0].subscription is not None:
            recs[0].subscription.cancel()          # the responder application no longer wants the requester's elements
            loop.run_ready()
        if not early:
            t.feed_wire(to_request_n_frame(1, n1))
            credit += n1
            if not split:
                loop.run_ready()
                check('after-first-request-n')
        t.feed_wire(to_request_n_frame(1, n2))
        credit += n2
        loop.run_ready()
        check('after-second-request-n')
        datas = [bytes(f.data) for f in _nexts(t, 1)]
        if datas != [bytes([65 + i]) for i in range(len(datas))]:
            devs.append('elements-out-of-order-or-duplicated')
        comp = _completes(t, 1)
        if len(comp) > 1:
            devs.append('completed-twice')
        if comp and len(datas) < m:
            devs.append('completed-before-last-element')
        if (credit > m or (COL and SRC in ('gen', 'agen') and credit >= m and m > 0)) and len(comp) != 1:
            devs.append('not-completed-although-source-exhausted-and-credit-left')
        if any(isinstance(f, ErrorFrame) for f in t.frames()):
            devs.append('unexpected-ERROR-frame')
        if SRC in ('rx4bp', 'rx3bp'):
            # a back-pressure-aware factory is asked for exactly the credited amounts, in order
            grants = [n0, n1, n2]
            if asked != grants[:len(asked)]:
                devs.append('backpressure-factory-not-asked-for-exactly-the-credited-amounts')
            elif len(asked) < 3 and sum(asked) <= m:
                # grants may only be dropped once the source is exhausted (stream finished)
                devs.append('credit-not-forwarded-to-backpressure-factory')
        stats.note(len(datas) >= 1, {'src': SRC, 'role': ROLE, 'm': m, 'emitted': len(datas), 'early': early, 'split': split})
        d = generic_dev(loop, s)
        if d:
            devs.append(d)
    return pick_dev(devs, ALLOWED)


NG = part('ng', 6)               # number of REQUEST_N frames in c_grant_sequence
BURST = part('burst', None)      # optional partition of c_grant_sequence's burst flag


def c_grant_sequence(n0: int, g: int, burst: bool, early: bool) -> str:
    """
    Longer REQUEST_N sequences: a responder (ROLE) over the library source SRC with M elements gets initial
    request-n n0 and then NG REQUEST_N frames of g each (n0, g 31-bit symbolic) - `burst`: all of them in one read
    (pending together before the publisher runs again), otherwise one at a time with a quiescent point after each;
    `early`: the burst arrives in the same read as the request.  At every quiescent point
    #PAYLOAD(next) == min(M, credit so far); no ERROR frame; a back-pressure-aware factory is asked for exactly the
    credited amounts in order.

    pre: 1 <= n0 <= 0x7FFFFFFF and 1 <= g <= 0x7FFFFFFF and (BURST is None or burst == BURST)
    post: _ in ALLOWED
    """
    m = M
    asked = []

    class H(BaseRequestHandler):
        async def request_stream(self, payload):
            return _publisher(SRC, m, COL, asked)

        async def request_channel(self, payload):
            return _publisher(SRC, m, COL, asked), Rec()

    burst = concb(burst)
    early = concb(early)
    loop = new_loop()
    with loop:
        t = SimTransport(loop)
        s = RSocketServer(t, handler_factory=H)
        loop.run_ready()
        if ROLE == 'stream':
            t.feed_wire(to_request_stream_frame(1, Payload(b'q'), initial_request_n=n0))
        else:
            t.feed_wire(to_request_channel_frame(1, Payload(b'q'), initial_request_n=n0))
        devs = []
        credit = n0

        def check(where):
            got = len(_nexts(t, 1))
            want = min(m, credit)
            if got > credit:
                devs.append('more-elements-than-credit')
            elif got > want:
                devs.append('more-elements-than-source-holds')
            elif got < want:
                devs.append('element-withheld-despite-credit:' + where)

        if not (burst and early):
            loop.run_ready()
            check('after-request')
        for i in range(NG):
            t.feed_wire(to_request_n_frame(1, g))
            credit += g
            if not burst:
                loop.run_ready()
                check('after-request-n-%d' % (i + 1))
        loop.run_ready()
        check('after-all-request-n')
        datas = [bytes(f.data) for f in _nexts(t, 1)]
        if datas != [bytes([65 + i]) for i in range(len(datas))]:
            devs.append('elements-out-of-order-or-duplicated')
        if any(isinstance(f, ErrorFrame) for f in t.frames()):
            devs.append('unexpected-ERROR-frame')
        if SRC in ('rx4bp', 'rx3bp'):
            grants = [n0] + [g] * NG
            if asked != grants[:len(asked)]:
                devs.append('backpressure-factory-not-asked-for-exactly-the-credited-amounts')
            elif len(asked) < len(grants) and sum(asked) <= m:
                devs.append('credit-not-forwarded-to-backpressure-factory')
        stats.note(len(datas) >= 1, {'src': SRC, 'role': ROLE, 'm': m, 'ng': NG, 'emitted': len(datas), 'burst': burst})
        d = generic_dev(loop, s)
        if d:
            devs.append(d)
    return pick_dev(devs, ALLOWED)


def c_channel_requester_credit(n1: int, n2: int, early: bool) -> str:
    """
    The requester side of a channel (client) with the library source SRC as its outbound publisher: it sends the
    REQUEST_CHANNEL and then only as many PAYLOAD(next) as the responder has granted by REQUEST_N (n1, n2 symbolic
    31 bit; `early`: first grant arrives before the publisher's feeder ran).

    pre: 1 <= n1 <= 0x7FFFFFFF and 1 <= n2 <= 0x7FFFFFFF
    post: _ in ALLOWED
    """
    m = M
    asked = []
    early = concb(early)
    loop = new_loop()
    with loop:
        t = SimTransport(loop)
        c = RSocketClient(provider([t]), keep_alive_period=timedelta(days=20), max_lifetime_period=timedelta(days=24))
        loop.create_task(c.connect())
        loop.run_ready()
        pub = _publisher(SRC, m, COL, asked)
        sub = Rec()
        c.request_channel(Payload(b'first'), pub).initial_request_n(5).subscribe(sub)
        devs = []
        credit = 0
        if early:
            t.feed_wire(to_request_n_frame(1, n1))
            credit += n1
        loop.run_ready()
        reqs = [f for f in t.frames(1) if isinstance(f, RequestChannelFrame)]
        if len(reqs) != 1 or reqs[0].initial_request_n != 5:
            devs.append('REQUEST_CHANNEL-missing-or-wrong-initial-n')

        def check(where):
            got = len(_nexts(t, 1))
            want = min(m, credit)
            if got > credit:
                devs.append('more-elements-than-credit')
            elif got != want:
                devs.append('element-withheld-or-extra:' + where)

        check('after-request')
        if not early:
            t.feed_wire(to_request_n_frame(1, n1))
            credit += n1
            loop.run_ready()
            check('after-first-request-n')
        t.feed_wire(to_request_n_frame(1, n2))
        credit += n2
        loop.run_ready()
        check('after-second-request-n')
        datas = [bytes(f.data) for f in _nexts(t, 1)]
        if datas != [bytes([65 + i]) for i in range(len(datas))]:
            devs.append('elements-out-of-order-or-duplicated')
        stats.note(len(datas) >= 1, {'src': SRC, 'm': m, 'emitted': len(datas), 'early': early})
        d = generic_dev(loop, c)
        if d:
            devs.append(d)
        loop.create_task(c.close())
        loop.run_ready()
    return pick_dev(devs, ALLOWED)


def c_forwarding(kind: int, n0: int, n1: int, n2: int) -> str:
    """
    Credit granted by the application is transmitted with exactly that value: initial_request_n(n0) appears in
    REQUEST_STREAM / REQUEST_CHANNEL, Subscription.request(n) appears as REQUEST_N(n); n <= 0 for the initial
    value is rejected with RSocketValueError (C08).

    pre: 0 <= kind <= 1
    pre: 1 <= n0 <= 0x7FFFFFFF and 1 <= n1 <= 0x7FFFFFFF and 1 <= n2 <= 0x7FFFFFFF
    post: _ in ALLOWED
    """
    kind = conc(kind, 0, 1)
    loop = new_loop()
    with loop:
        t = SimTransport(loop)
        c = RSocketClient(provider([t]), keep_alive_period=timedelta(days=20), max_lifetime_period=timedelta(days=24))
        loop.create_task(c.connect())
        loop.run_ready()
        sub = Rec()
        if kind == 0:
            c.request_stream(Payload(b'q')).initial_request_n(n0).subscribe(sub)
        else:
            c.request_channel(Payload(b'q'), RecPub()).initial_request_n(n0).subscribe(sub)
        loop.run_ready()
        sub.subscription.request(n1)
        sub.subscription.request(n2)
        loop.run_ready()
        fr = t.frames(1)
        devs = []
        first = [f for f in fr if isinstance(f, (RequestStreamFrame, RequestChannelFrame))]
        if len(first) != 1 or first[0].initial_request_n != n0:
            devs.append('initial-request-n-not-transmitted-exactly')
        rn = [f.request_n for f in fr if isinstance(f, RequestNFrame)]
        if rn != [n1, n2]:
            devs.append('request-n-not-transmitted-exactly')
        stats.note(True, {'kind': kind})
        d = generic_dev(loop, c)
        if d:
            devs.append(d)
        loop.create_task(c.close())
        loop.run_ready()
    return pick_dev(devs, ALLOWED)
