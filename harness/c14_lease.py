"""C14 Lease: no request without a valid lease, never more than granted (DESIGN §5 C14)."""
from datetime import timedelta

import vlib.env  # noqa: F401
from vlib import stats
from vlib.env import part
from vlib.known import allowed, pick as pick_dev
from vlib.sim import new_loop, SimTransport, provider, Rec, generic_dev, conc, concb, wire, RecPub

from reactivestreams.publisher import Publisher
from rsocket.frame import (LeaseFrame, RequestResponseFrame, RequestStreamFrame, RequestChannelFrame,
                           RequestFireAndForgetFrame, SetupFrame, ErrorFrame)
from rsocket.lease import DefinedLease
from rsocket.payload import Payload
from rsocket.rsocket_client import RSocketClient
from rsocket.rsocket_server import RSocketServer

ALLOWED = allowed('C14')
REQ_TYPES = (RequestResponseFrame, RequestStreamFrame, RequestChannelFrame, RequestFireAndForgetFrame)
NB = part('nb', 1)      # requests issued before the first LEASE
NA = part('na', 1)      # requests issued after it
QSIZE = part('qsize', 0)
FRAG = part('frag', False)


def _lease_frame(count, ttl_ms):
    f = LeaseFrame()
    f.number_of_requests = count
    f.time_to_live = ttl_ms
    return f


def _issue(c, kind, tag):
    """issue one request of the given kind; returns nothing (failures of a full queue are recorded by caller)"""
    p = Payload(bytes([65 + tag]) * (80 if FRAG else 1))
    if kind == 0:
        c.request_response(p)
    elif kind == 1:
        c.request_stream(p).subscribe(Rec())
    elif kind == 2:
        c.request_channel(p, RecPub()).subscribe(Rec())
    else:
        c.fire_and_forget(p)


class RefLease:
    """reference model of a lease-honouring requester (RSocket 1.0 LEASE semantics + the library's documented queue):
    a request goes out at once iff the current lease is unexpired and has capacity, otherwise it is retained (FIFO,
    up to the queue size; beyond that the caller gets QueueFull); an arriving LEASE replaces the lease and releases
    retained requests in order while it allows."""

    def __init__(self, qsize):
        self.qsize = qsize
        self.queue = []
        self.count = 0
        self.used = 0
        self.expires = 0
        self.sent = []

    def _allowed(self, now):
        if now >= self.expires:
            return False
        self.used += 1
        return self.used <= self.count

    def issue(self, sid, now):
        if self._allowed(now):
            self.sent.append(sid)
        elif self.qsize == 0 or len(self.queue) < self.qsize:
            self.queue.append(sid)

    def lease(self, count, ttl_us, now):
        self.count, self.used, self.expires = count, 0, now + ttl_us
        while self.queue and self._allowed(now):
            self.sent.append(self.queue.pop(0))


def _requests(t):
    """request frames on the wire with their virtual send time, in order (first fragments only)"""
    return [(ts, f) for ts, f in t.sent if isinstance(f, REQ_TYPES)]


KINDS = part('kinds', [0, 1, 2, 3])
SECOND = part('second', False)


def c_requester(count: int, ttl_ms: int, dt1_us: int, dt2_us: int, count2: int) -> str:
    """
    A lease-honouring client (request kinds KINDS and SECOND fixed per process): NB requests before any LEASE, then LEASE(count, ttl) at a symbolic
    time, symbolic time passes, NA more requests, optionally a second LEASE(count2, same ttl), time passes again.
    Monitor on the wire with virtual timestamps: nothing before the first LEASE; under each lease at most `count`
    requests and none at/after arrival+ttl; queued requests are released FIFO (up to the queue size) when a usable
    lease arrives; each request appears at most once.

    pre: 0 <= count <= 0x7FFFFFFF and 0 <= count2 <= 0x7FFFFFFF
    pre: 0 <= ttl_ms <= 0x7FFFFFFF
    pre: 0 <= dt1_us <= 1000000000000 and 0 <= dt2_us <= 1000000000000
    post: _ in ALLOWED
    """
    kinds = list(KINDS)
    second_lease = SECOND
    loop = new_loop()
    with loop:
        t = SimTransport(loop)
        c = RSocketClient(provider([t]), honor_lease=True, request_queue_size=QSIZE,
                          keep_alive_period=timedelta(days=24), max_lifetime_period=timedelta(milliseconds=2147483647),
                          fragment_size_bytes=64 if FRAG else None)
        loop.create_task(c.connect())
        loop.run_ready()
        devs = []
        issued = []          # (tag, kind, accepted)
        tag = 0
        ref = RefLease(QSIZE)

        def ref_check(where):
            ids = [f.stream_id for _, f in _requests(t)]
            if ids != ref.sent:
                devs.append('C14:request-sequence-differs-from-reference-lease-model:' + where)
        for i in range(NB):
            ref.issue(2 * tag + 1, loop.now_us())
            try:
                _issue(c, kinds[tag % len(kinds)], tag)
                issued.append(tag)
            except Exception as e:  # asyncio.QueueFull when the bounded lease queue overflows
                if type(e).__name__ != 'QueueFull':
                    devs.append('request-raised:' + type(e).__name__)
            tag += 1
        loop.run_ready()
        if _requests(t):
            devs.append('request-sent-before-first-LEASE')
        queued_before = list(issued) if QSIZE == 0 else issued[:QSIZE]
        # first lease
        t.feed_wire(_lease_frame(count, ttl_ms))
        ref.lease(count, ttl_ms * 1000, loop.now_us())
        loop.run_ready()
        ref_check('after-first-lease')
        t_lease1 = loop.now_us()
        released = [f for _, f in _requests(t)]
        usable1 = ttl_ms > 0
        want_rel = min(len(queued_before), count) if usable1 else 0
        if len(released) != want_rel:
            devs.append('queued-requests-released-%s-than-lease-allows' % ('more' if len(released) > want_rel else 'fewer'))
        loop.advance_us(dt1_us)
        n_under1 = len(released)
        for i in range(NA):
            before = len(_requests(t))
            ref.issue(2 * tag + 1, loop.now_us())
            try:
                _issue(c, kinds[tag % len(kinds)], tag)
            except Exception as e:
                if type(e).__name__ != 'QueueFull':
                    devs.append('request-raised:' + type(e).__name__)
            tag += 1
            loop.run_ready()
            ref_check('after-request')
            new = len(_requests(t)) - before
            expired = loop.now_us() >= t_lease1 + ttl_ms * 1000
            if new > 0:
                n_under1 += new
                if expired:
                    devs.append('request-sent-after-lease-expired')
                if n_under1 > count:
                    devs.append('more-requests-than-lease-granted')
            elif not expired and n_under1 < count and not (len(queued_before) > want_rel):
                # lease still valid with capacity left and nothing older waiting: must go out immediately
                devs.append('request-withheld-despite-valid-lease')
                n_under1 += 0
        if second_lease:
            before = len(_requests(t))
            t.feed_wire(_lease_frame(count2, ttl_ms))
            ref.lease(count2, ttl_ms * 1000, loop.now_us())
            loop.run_ready()
            ref_check('after-second-lease')
            t_lease2 = loop.now_us()
            rel2 = len(_requests(t)) - before
            if rel2 > count2 or (ttl_ms == 0 and rel2 > 0):
                devs.append('more-requests-than-second-lease-granted')
            loop.advance_us(dt2_us)
            before = len(_requests(t))
            ref.issue(2 * tag + 1, loop.now_us())
            try:
                _issue(c, 0, 9)
            except Exception:
                pass
            loop.run_ready()
            ref_check('after-last-request')
            new = len(_requests(t)) - before
            if new and (loop.now_us() >= t_lease2 + ttl_ms * 1000 or rel2 + new > count2):
                devs.append('second-lease-limits-not-enforced')
        # every request at most once, FIFO by stream id (ids are allocated in issue order)
        ids = [f.stream_id for _, f in _requests(t)]
        if len(set(ids)) != len(ids):
            devs.append('request-sent-twice')
        if ids != sorted(ids):
            devs.append('requests-not-released-in-FIFO-order')
        if any(f.stream_id != 0 for f in t.frames() if isinstance(f, (SetupFrame, LeaseFrame))):
            devs.append('connection-frame-on-nonzero-stream')
        stats.note(len(ids) >= 1, {'nb': NB, 'na': NA, 'sent': len(ids), 'second': second_lease, 'q': QSIZE})
        d = generic_dev(loop, c)
        if d:
            devs.append(d)
        loop.create_task(c.close())
        loop.run_ready()
    return pick_dev(devs, ALLOWED)


class _LeasePub(Publisher):
    def __init__(self):
        self.sub = None

    def subscribe(self, subscriber):
        self.sub = subscriber


TTLS_US = (0, 1000, 500000, 1500000, 2500, 999600, 86400001000, 2147483647000, 1001000, 4007000)


def c_responder(count: int, ttl_i: int, n: int, client_asks: bool) -> str:
    """
    A responder with a lease publisher announces exactly the leases it publishes: one LEASE frame per published
    lease, number_of_requests == count and time_to_live == ttl in milliseconds (ttl from representatives incl.
    sub-second parts; the ms arithmetic over the full range is the E2 obligation shared with C16), on stream 0.

    pre: 0 <= count <= 0x7FFFFFFF
    pre: 0 <= ttl_i <= 9
    pre: 0 <= n <= 2
    post: _ in ALLOWED
    """
    from vlib.sim import pick
    ttl_us = pick(ttl_i, TTLS_US)
    n = conc(n, 0, 2)
    loop = new_loop()
    with loop:
        t = SimTransport(loop)
        pub = _LeasePub()
        s = RSocketServer(t, lease_publisher=pub)
        loop.run_ready()
        setup = SetupFrame()
        setup.flags_lease = concb(client_asks)
        setup.keep_alive_milliseconds = 1000
        setup.max_lifetime_milliseconds = 2000
        setup.data_encoding = b'a/b'
        setup.metadata_encoding = b'c/d'
        t.feed_wire(setup)
        loop.run_ready()
        devs = []
        if client_asks and pub.sub is None:
            devs.append('lease-publisher-not-subscribed')
        if pub.sub is not None:
            for i in range(n):
                pub.sub.on_next(DefinedLease(count, timedelta(microseconds=ttl_us)))
                loop.run_ready()
        leases = [f for f in t.frames() if isinstance(f, LeaseFrame)]
        want = n if pub.sub is not None else 0
        stats.note(len(leases) >= 1, {'n': n, 'ttl_us': ttl_us})
        if len(leases) != want:
            devs.append('LEASE-frames-differ-from-published-leases')
        for f in leases:
            if f.stream_id != 0:
                devs.append('LEASE-on-nonzero-stream')
            if f.number_of_requests != count:
                devs.append('LEASE-count-differs')
            if abs(f.time_to_live * 1000 - ttl_us) > 500:
                devs.append('LEASE-ttl-ms-differs')
        if any(isinstance(f, ErrorFrame) for f in t.frames()):
            devs.append('unexpected-ERROR')
        d = generic_dev(loop, s)
        if d:
            devs.append(d)
    return pick_dev(devs, ALLOWED)
