"""C09 Cancellation stops the stream at both ends (DESIGN §5 C09) - monitor over harness/hist.py + library sources."""
from datetime import timedelta

import vlib.env  # noqa: F401
from vlib import stats
from vlib.env import part
from vlib.known import allowed, pick as pick_dev
from vlib.sim import conc, concb, new_loop, SimTransport, generic_dev, Rec

from harness.hist import run_history, describe, NA, K, PREFIX, SID, ROLE, LEASE
from harness.c07_termination import _pad
from rsocket.frame import CancelFrame, PayloadFrame, ErrorFrame, RequestNFrame
from rsocket.frame_builders import to_request_stream_frame, to_request_n_frame, to_cancel_frame
from rsocket.payload import Payload
from rsocket.request_handler import BaseRequestHandler
from rsocket.rsocket_server import RSocketServer
from rsocket.streams.stream_from_async_generator import StreamFromAsyncGenerator
from rsocket.streams.stream_from_generator import StreamFromGenerator

ALLOWED = allowed('C09')
FREE = K - len(PREFIX)
NCONST = vlib.env.part('nconst', True)     # request-n is not the subject here (C06/C08 have it symbolic): concrete frames run natively


def c_history(e1: int, e2: int, e3: int, e4: int, a1: bool, a2: bool, a3: bool, a4: bool, b1: bool, b2: bool,
              b3: bool, b4: bool, c1: bool, c2: bool, c3: bool, c4: bool, n: int) -> str:
    """
    K events on one interaction in role ROLE.  Canceller side: when the application cancels a pending interaction
    (at any moment, also racing the next event) exactly one CANCEL goes out for that stream and no callback /
    result reaches the canceller afterwards, whatever the peer still sends.  Producer side: the first CANCEL from
    the peer cancels the application's publisher subscription / handler future and the library emits
    no further PAYLOAD/ERROR on that stream.  The bystander request is served normally.

    pre: 0 <= e1 < NA and 0 <= e2 < NA and 0 <= e3 < NA and 0 <= e4 < NA
    pre: 1 <= n <= 0x7fffffff
    post: _ in ALLOWED
    """
    ev = list(PREFIX) + [conc(e, 0, NA - 1) for e in (e1, e2, e3, e4)[:FREE]]
    o = run_history(ev, _pad((a1, a2, a3, a4), len(ev)), _pad((b1, b2, b3, b4), len(ev)),
                    _pad((c1, c2, c3, c4), len(ev)), 5 if NCONST else n)
    devs = []
    role = o.role
    out = [f for f in o.t.frames() if f.stream_id == SID]
    cancels = [f for f in out if isinstance(f, CancelFrame)]
    if o.app_cancelled:
        log_at, sent_at = o.cancel_at
        # the request itself may still be lease-blocked / the connection may have been closed right away
        # (if the peer's terminal frame had already arrived - though not yet been processed - when the application
        #  cancelled, the interaction was no longer pending on the wire: zero CANCEL frames is then correct too)
        if len(cancels) != 1 and not ((o.closed or o.cancel_peer_done) and len(cancels) == 0):
            devs.append('C09:%s:app-cancel-produced-%d-CANCEL-frames' % (role, len(cancels)))
        sub = o.sub if role in ('rs_req', 'ch_req') else o.rsub
        if sub is not None and len(sub.log) > log_at:
            devs.append('C09:%s:signal-delivered-to-canceller-after-cancel' % role)
        if role == 'rr_req' and not o.fut.cancelled():
            devs.append('cancelled-awaitable-resolved-afterwards')
        after = [f for _, f in o.t.sent[sent_at:] if f.stream_id == SID]
        if role in ('rr_req', 'rs_req') and [f for f in after if not isinstance(f, CancelFrame)]:
            devs.append('C09:lease:blocked-request-sent-after-cancel' if LEASE else 'C09:%s:frame-after-own-CANCEL' % role)
    elif cancels and role in ('rr_req', 'rs_req'):
        devs.append('CANCEL-sent-without-application-cancel')
    if o.inbound_cancel:
        after = [f for _, f in o.t.sent[o.inbound_cancel_emitted_before:] if f.stream_id == SID]
        if role == 'rr_resp':
            if o.fut is not None and not o.fut.done():
                devs.append('handler-future-not-cancelled-on-CANCEL')
        elif o.pub is not None and o.pub.sub is not None:
            # (Subscription.cancel is idempotent by contract: a second call when the connection closes is legal)
            if not o.pub.done and o.pub.cancelled < 1:
                devs.append('C09:%s:publisher-not-cancelled-on-CANCEL' % role)
        if [f for f in after if isinstance(f, (PayloadFrame, ErrorFrame))]:
            devs.append('C09:%s:PAYLOAD-or-ERROR-emitted-after-peer-CANCEL' % role)
    if o.by_ok is False:
        devs.append('bystander-request-disturbed-by-cancellation')
    if o.loop.errors():
        devs.append('loop-exception-handler-called')
    stats.note(o.app_cancelled or o.inbound_cancel > 0, describe(o))
    return pick_dev(devs, ALLOWED)


SRC = part('src', 'gen')
M = part('m', 3)


def c_cancel_library_sources(when: int, n0: int, extra: bool) -> str:
    """
    Producer side with the library's own stream sources (generator / async generator / reactivex / Rx): CANCEL
    arrives `when` = 0: in the same read as the request (before any credit reached the feeder tasks); 1..M: after
    that many elements were emitted; M+1: after completion.  Afterwards no further PAYLOAD is emitted even if
    more REQUEST_N arrive, the source is not pulled any more, and the stream is dropped.

    pre: 0 <= when <= M + 1
    pre: 1 <= n0 <= 0x7FFFFFFF
    post: _ in ALLOWED
    """
    from harness.c06_credit import _publisher
    when = conc(when, 0, M + 1)
    pulled = []

    class H(BaseRequestHandler):
        async def request_stream(self, payload):
            if SRC in ('gen', 'agen'):
                def gen():
                    for i in range(M):
                        pulled.append(i)
                        yield Payload(bytes([65 + i])), False
                if SRC == 'gen':
                    return StreamFromGenerator(gen)

                async def agen():
                    for i in range(M):
                        pulled.append(i)
                        yield Payload(bytes([65 + i])), False
                return StreamFromAsyncGenerator(agen)
            return _publisher(SRC, M, False, [])

    loop = new_loop()
    with loop:
        t = SimTransport(loop)
        s = RSocketServer(t, handler_factory=H)
        loop.run_ready()
        devs = []
        first = 1 if when >= 1 else n0
        t.feed_wire(to_request_stream_frame(1, Payload(b'q'), initial_request_n=first if when >= 1 else n0))
        if when == 0:
            t.feed_wire(to_cancel_frame(1))
            loop.run_ready()
        else:
            loop.run_ready()
            for j in range(1, min(when, M + 1)):
                t.feed_wire(to_request_n_frame(1, 1))
                loop.run_ready()
            if when == M + 1:
                t.feed_wire(to_request_n_frame(1, n0))
                loop.run_ready()
            t.feed_wire(to_cancel_frame(1))
            loop.run_ready()
        emitted = len([f for f in t.frames(1) if isinstance(f, PayloadFrame)])
        pulled_at_cancel = len(pulled)
        t.feed_wire(to_request_n_frame(1, n0))
        if extra:
            t.feed_wire(to_request_n_frame(1, 1))
        loop.run_ready()
        loop.advance_us(2000000)
        now = len([f for f in t.frames(1) if isinstance(f, PayloadFrame)])
        stats.note(True, {'src': SRC, 'when': when, 'emitted_before_cancel': emitted})
        if now != emitted:
            devs.append('C09:PAYLOAD-emitted-after-CANCEL:' + SRC)
        if len(pulled) != pulled_at_cancel:
            devs.append('source-pulled-after-CANCEL')
        if when == 0 and (emitted != 0 or pulled_at_cancel != 0):
            devs.append('C09:element-produced-although-CANCEL-arrived-with-the-request:' + SRC)
        if when >= 1 and when <= M and emitted != when:
            devs.append('harness-expectation:elements-before-cancel')
        if 1 in s._stream_control._streams:
            devs.append('stream-retained-after-CANCEL')
        if any(isinstance(f, ErrorFrame) for f in t.frames()):
            devs.append('ERROR-emitted-on-cancellation')
        d = generic_dev(loop, s)
        if d:
            devs.append(d)
    return pick_dev(devs, ALLOWED)


# ------------------------------------------------------------------------------------------------ two endpoints
E2E_KIND = part('e2e_kind', 1)        # 0 request-response, 1 stream, 2 channel


def c_cancel_end_to_end(big: bool, frag: bool, mode_i: int, moment: int, resp_cancels: bool) -> str:
    """
    Both ends: a real client (requester) and a real server joined by the simulated link of C01.  The application
    cancels a request-response / stream / channel (E2E_KIND) whose request payload is small or needs several
    fragments, at moment 0: in the same tick as the request (nothing written yet), 1: after one link round (request
    partly on the wire when the client's writer blocks), 2: after the request was delivered and the producer started.
    Link: message framing / TCP / TCP with the client's writer blocking in drain().  At quiescence: exactly one
    CANCEL left the client, the canceller received nothing, the server's handler future / publisher was cancelled
    (if the handler was invoked at all), and neither endpoint retains the stream or a partial frame.  Channels
    (moment 2): the cancel closes one direction only; it may also be the RESPONDER's application that cancels
    (`resp_cancels`); when the cancelling side's own publisher then completes (a separate completion signal), both
    directions are finished and neither endpoint retains the channel.

    pre: 0 <= mode_i <= 2 and 0 <= moment <= 2
    post: _ in ALLOWED
    """
    from harness.c01_e2e import Link
    from harness.hist import _Handler
    from rsocket.rsocket_client import RSocketClient
    from vlib.sim import provider, RecPub
    big, frag = concb(big), concb(frag)
    mode_i = conc(mode_i, 0, 2)
    moment = conc(moment, 0, 2)
    mode = (0, 1, 5)[mode_i]
    loop = new_loop()
    with loop:
        link = Link(loop, tcp=mode != 0, blocking_drain={5: 'c2s'}.get(mode))
        fs = 64 if frag else None
        srv = RSocketServer(link.server_tr, handler_factory=_Handler, fragment_size_bytes=fs)
        cli = RSocketClient(provider([link.client_tr]), keep_alive_period=timedelta(days=20),
                            max_lifetime_period=timedelta(days=24), fragment_size_bytes=fs)
        loop.create_task(cli.connect())
        link.pump()
        p = Payload(b'Q' * (400 if big else 3), b'M' * (150 if big else 0))
        sub = fut = pub = None
        if E2E_KIND == 0:
            fut = cli.request_response(p)
        elif E2E_KIND == 1:
            sub = Rec()
            cli.request_stream(p).initial_request_n(2).subscribe(sub)
        else:
            sub = Rec()
            pub = RecPub()
            cli.request_channel(p, pub).initial_request_n(2).subscribe(sub)
        if moment == 1:
            link.pump(rounds=1)
        elif moment == 2:
            link.pump()
        log_at = len(sub.log) if sub is not None else 0
        h = srv._handler
        resp_cancels = E2E_KIND == 2 and moment == 2 and concb(resp_cancels) and 0 in h.subs and h.subs[0].subscription is not None
        if resp_cancels:
            h.subs[0].subscription.cancel()          # the responder's application no longer wants the requester's elements
        elif fut is not None:
            fut.cancel()
        else:
            sub.subscription.cancel()
        link.pump()
        devs = []
        if E2E_KIND == 2 and moment == 2 and 0 in h.pubs:
            # the cancelling side's own publisher finishes with a separate completion: both directions are then closed
            closer = h.pubs[0] if resp_cancels else pub
            if closer.sub is not None and not closer.done:
                closer.complete()
                link.pump()
                if srv._stream_control._streams or cli._stream_control._streams:
                    devs.append('C10:e2e:channel-retained-after-both-directions-finished:%s'
                                % ('responder' if srv._stream_control._streams else 'requester'))
        # what left the client
        if link.tcp:
            raw = link.c2s.all_bytes()
            frames = []
            while len(raw) >= 3:
                n_ = raw[0] * 65536 + raw[1] * 256 + raw[2]
                frames.append(raw[3:3 + n_])
                raw = raw[3 + n_:]
        else:
            frames = None
        if frames is not None:
            from rsocket.frame import parse_or_ignore
            dec = [parse_or_ignore(x) for x in frames]
            cancels = [f for f in dec if isinstance(f, CancelFrame)]
            if len(cancels) != 1 and not resp_cancels:
                devs.append('C09:e2e:%d-CANCEL-frames-left-the-canceller' % len(cancels))
        if sub is not None and len(sub.log) > log_at and not resp_cancels:
            devs.append('C09:e2e:signal-delivered-to-canceller-after-cancel')
        if fut is not None and not fut.cancelled():
            devs.append('cancelled-awaitable-resolved-afterwards')
        invoked = len(h.futs) + len(h.pubs)
        for f in h.futs.values():
            if not f.cancelled():
                devs.append('C09:e2e:handler-future-not-cancelled-on-the-peer')
        for pb in h.pubs.values():
            if pb.sub is not None and pb.cancelled < 1 and not pb.done:
                devs.append('C09:e2e:publisher-not-cancelled-on-the-peer')
        # C10's view of the same scenario
        # (channels: cancel() closes one direction only - the recorded half-close findings of C08/C10 - so retention is
        #  judged for request-response and request-stream only)
        if E2E_KIND != 2 and (srv._stream_control._streams or cli._stream_control._streams):
            devs.append('C10:e2e:stream-retained-after-cancel:%s' % ('responder' if srv._stream_control._streams else 'requester'))
        if srv._frame_fragment_cache._frames_by_stream_id or cli._frame_fragment_cache._frames_by_stream_id:
            devs.append('C10:e2e:partial-frame-retained-after-cancel')
        d = generic_dev(loop, cli, srv)
        if d:
            devs.append(d)
        stats.note(True, {'kind': E2E_KIND, 'big': big, 'frag': frag, 'mode': mode, 'moment': moment, 'handler_invoked': invoked})
        loop.create_task(cli.close())
        loop.run_ready()
        if loop.errors():
            devs.append('loop-exception-handler-called')
    return pick_dev(devs, ALLOWED)
