"""C09 Cancellation stops the stream at both ends (DESIGN §5 C09) - monitor over harness/hist.py + library sources."""
from datetime import timedelta

import vlib.env  # noqa: F401
from vlib import stats
from vlib.env import part
from vlib.known import allowed, pick as pick_dev
from vlib.sim import conc, concb, new_loop, SimTransport, generic_dev, Rec

from harness.hist import run_history, describe, NA, K, PREFIX, SID, ROLE, LEASE
from harness.c07_termination import _pad
from rsocket.frame import CancelFrame, PayloadFrame, ErrorFrame, RequestNFrame
from rsocket.frame_builders import to_request_stream_frame, to_request_n_frame, to_cancel_frame
from rsocket.payload import Payload
from rsocket.request_handler import BaseRequestHandler
from rsocket.rsocket_server import RSocketServer
from rsocket.streams.stream_from_async_generator import StreamFromAsyncGenerator
from rsocket.streams.stream_from_generator import StreamFromGenerator

ALLOWED = allowed('C09')
FREE = K - len(PREFIX)
NCONST = vlib.env.part('nconst', True)     # request-n is not the subject here (C06/C08 have it symbolic): concrete frames run natively


def c_history(e1: int, e2: int, e3: int, e4: int, a1: bool, a2: bool, a3: bool, a4: bool, b1: bool, b2: bool,
              b3: bool, b4: bool, c1: bool, c2: bool, c3: bool, c4: bool, n: int) -> str:
    """
    K events on one interaction in role ROLE.  Canceller side: when the application cancels a pending interaction
    (at any moment, also racing the next event) exactly one CANCEL goes out for that stream and no callback /
    result reaches the canceller afterwards, whatever the peer still sends.  Producer side: the first CANCEL from
    the peer cancels the application's publisher subscription / handler future and the library emits
    no further PAYLOAD/ERROR on that stream.  The bystander request is served normally.

    pre: 0 <= e1 < NA and 0 <= e2 < NA and 0 <= e3 < NA and 0 <= e4 < NA
    pre: 1 <= n <= 0x7fffffff
    post: _ in ALLOWED
    """
    ev = list(PREFIX) + [conc(e, 0, NA - 1) for e in (e1, e2, e3, e4)[:FREE]]
    o = run_history(ev, _pad((a1, a2, a3, a4), len(ev)), _pad((b1, b2, b3, b4), len(ev)),
                    _pad((c1, c2, c3, c4), len(ev)), 5 if NCONST else n)
    devs = []
    role = o.role
    out = [f for f in o.t.frames() if f.stream_id == SID]
    cancels = [f for f in out if isinstance(f, CancelFrame)]
    if o.app_cancelled:
        log_at, sent_at = o.cancel_at
        # the request itself may still be lease-blocked / the connection may have been closed right away
        # (if the peer's terminal frame had already arrived - though not yet been processed - when the application
        #  cancelled, the interaction was no longer pending on the wire: zero CANCEL frames is then correct too)
        if len(cancels) != 1 and not ((o.closed or o.cancel_peer_done) and len(cancels) == 0):
            devs.append('C09:%s:app-cancel-produced-%d-CANCEL-frames' % (role, len(cancels)))
        sub = o.sub if role in ('rs_req', 'ch_req') else o.rsub
        if sub is not None and len(sub.log) > log_at:
            devs.append('C09:%s:signal-delivered-to-canceller-after-cancel' % role)
        if role == 'rr_req' and not o.fut.cancelled():
            devs.append('cancelled-awaitable-resolved-afterwards')
        after = [f for _, f in o.t.sent[sent_at:] if f.stream_id == SID]
        if role in ('rr_req', 'rs_req') and [f for f in after if not isinstance(f, CancelFrame)]:
            devs.append('C09:lease:blocked-request-sent-after-cancel' if LEASE else 'C09:%s:frame-after-own-CANCEL' % role)
    elif cancels and role in ('rr_req', 'rs_req'):
        devs.append('CANCEL-sent-without-application-cancel')
    if o.inbound_cancel:
        after = [f for _, f in o.t.sent[o.inbound_cancel_emitted_before:] if f.stream_id == SID]
        if role == 'rr_resp':
            if o.fut is not None and not o.fut.done():
                devs.append('handler-future-not-cancelled-on-CANCEL')
        elif o.pub is not None and o.pub.sub is not None:
            # (Subscription.cancel is idempotent by contract: a second call when the connection closes is legal)
            if not o.pub.done and o.pub.cancelled < 1:
                devs.append('C09:%s:publisher-not-cancelled-on-CANCEL' % role)
        if [f for f in after if isinstance(f, (PayloadFrame, ErrorFrame))]:
            devs.append('C09:%s:PAYLOAD-or-ERROR-emitted-after-peer-CANCEL' % role)
    if o.by_ok is False:
        devs.append('bystander-request-disturbed-by-cancellation')
    if o.loop.errors():
        devs.append('loop-exception-handler-called')
    stats.note(o.app_cancelled or o.inbound_cancel > 0, describe(o))
    return pick_dev(devs, ALLOWED)


SRC = part('src', 'gen')
M = part('m', 3)


def c_cancel_library_sources(when: int, n0: int, extra: bool) -> str:
    """
    Producer side with the library's own stream sources (generator / async generator / reactivex / Rx): CANCEL
    arrives `when` = 0: in the same read as the request (before any credit reached the feeder tasks); 1..M: after
    that many elements were emitted; M+1: after completion.  Afterwards no further PAYLOAD is emitted even if
    more REQUEST_N arrive, the source is not pulled any more, and the stream is dropped.

    pre: 0 <= when <= M + 1
    pre: 1 <= n0 <= 0x7FFFFFFF
    post: _ in ALLOWED
    """
    from harness.c06_credit import _publisher
    when = conc(when, 0, M + 1)
    pulled = []

    class H(BaseRequestHandler):
        async def request_stream(self, payload):
            if SRC in ('gen', 'agen'):
                def gen():
                    for i in range(M):
                        pulled.append(i)
                        yield Payload(bytes([65 + i])), False
                if SRC == 'gen':
                    return StreamFromGenerator(gen)

                async def agen():
                    for i in range(M):
                        pulled.append(i)
                        yield Payload(bytes([65 + i])), False
                return StreamFromAsyncGenerator(agen)
            return _publisher(SRC, M, False, [])

    loop = new_loop()
    with loop:
        t = SimTransport(loop)
        s = RSocketServer(t, handler_factory=H)
        loop.run_ready()
        devs = []
        first = 1 if when >= 1 else n0
        t.feed_wire(to_request_stream_frame(1, Payload(b'q'), initial_request_n=first if when >= 1 else n0))
        if when == 0:
            t.feed_wire(to_cancel_frame(1))
            loop.run_ready()
        else:
            loop.run_ready()
            for j in range(1, min(when, M + 1)):
                t.feed_wire(to_request_n_frame(1, 1))
                loop.run_ready()
            if when == M + 1:
                t.feed_wire(to_request_n_frame(1, n0))
                loop.run_ready()
            t.feed_wire(to_cancel_frame(1))
            loop.run_ready()
        emitted = len([f for f in t.frames(1) if isinstance(f, PayloadFrame)])
        pulled_at_cancel = len(pulled)
        t.feed_wire(to_request_n_frame(1, n0))
        if extra:
            t.feed_wire(to_request_n_frame(1, 1))
        loop.run_ready()
        loop.advance_us(2000000)
        now = len([f for f in t.frames(1) if isinstance(f, PayloadFrame)])
        stats.note(True, {'src': SRC, 'when': when, 'emitted_before_cancel': emitted})
        if now != emitted:
            devs.append('C09:PAYLOAD-emitted-after-CANCEL:' + SRC)
        if len(pulled) != pulled_at_cancel:
            devs.append('source-pulled-after-CANCEL')
        if when == 0 and (emitted != 0 or pulled_at_cancel != 0):
            devs.append('C09:element-produced-although-CANCEL-arrived-with-the-request:' + SRC)
        if when >= 1 and when <= M and emitted != when:
            devs.append('harness-expectation:elements-before-cancel')
        if 1 in s._stream_control._streams:
            devs.append('stream-retained-after-CANCEL')
        if any(isinstance(f, ErrorFrame) for f in t.frames()):
            devs.append('ERROR-emitted-on-cancellation')
        d = generic_dev(loop, s)
        if d:
            devs.append(d)
    return pick_dev(devs, ALLOWED)
