"""C17 Reconnect yields a fresh, working connection (DESIGN §5 C17)."""
from datetime import timedelta

import vlib.env  # noqa: F401
from vlib import stats
from vlib.env import part
from vlib.known import allowed, pick as pick_dev
from vlib.sim import (new_loop, SimTransport, provider, Rec, RecPub, generic_dev, conc, concb, grammar_dev, terminals)

from rsocket.frame import (SetupFrame, KeepAliveFrame, RequestResponseFrame, PayloadFrame)
from rsocket.frame_builders import to_payload_frame, to_request_response_frame
from rsocket.helpers import create_future
from rsocket.payload import Payload
from rsocket.request_handler import BaseRequestHandler
from rsocket.rsocket_client import RSocketClient

ALLOWED = allowed('C17')
CAUSE = part('cause', 0)          # 0 server EOF, 1 transport error, 2 keep-alive time-out, 3 explicit reconnect while healthy
ROUNDS = part('rounds', 1)
RECONNECT_FROM_ON_CLOSE = part('from_on_close', False)   # causes 0/1: the application reconnects from its on_close callback
SUSPEND_CONNECT = part('suspend_connect', False)
CLOSE_RAISES = part('close_raises', False)   # the old transport's close() raises ConnectionResetError (reset connection)
FRAG_IN = part('frag_in', False)   # the server was in the middle of a fragmented request of its own (stream 2) when the connection ended
IDLE_MAX = part('idle_max', 2500000)
PEND = part('pend', None)          # optional partition: [pending request-response?, pending stream?, when]
P_US = 1000000
L_US = 3000000


class _H(BaseRequestHandler):
    def __init__(self):
        self.closed = 0
        self.timeouts = 0
        self.sock = None

    async def request_response(self, payload):
        f = create_future()
        f.set_result(Payload(b'pong:' + bytes(payload.data or b'')))
        return f

    async def on_keepalive_timeout(self, time_since_last_keepalive, rsocket):
        self.timeouts += 1
        await rsocket.reconnect()

    async def on_close(self, rsocket, exception=None):
        self.closed += 1
        if RECONNECT_FROM_ON_CLOSE and self.closed <= ROUNDS:
            await rsocket.reconnect()          # the usual application pattern (tests/rsocket/test_connection_lost.py)


def _end_connection(loop, c, t, cause, idle_us):
    """end the current connection by CAUSE and request a reconnect"""
    if cause == 0:
        t.eof()
        loop.run_ready()
        loop.advance_us(idle_us)
        if not RECONNECT_FROM_ON_CLOSE:
            loop.create_task(c.reconnect())
    elif cause == 1:
        t.fail()
        loop.run_ready()
        loop.advance_us(idle_us)
        if not RECONNECT_FROM_ON_CLOSE:
            loop.create_task(c.reconnect())
    elif cause == 2:
        t.auto_ack = False
        # the server goes silent: after max lifetime the time-out handler asks for a reconnect
        loop.advance_us(2 * L_US + 1 + idle_us)
    else:
        loop.advance_us(idle_us)
        loop.create_task(c.reconnect())
    loop.run_ready()


def c_reconnect(pend_rr: bool, pend_rs: bool, when: int, idle_us: int, settle_us: int, idle2_us: int) -> str:
    """
    A client on transports T1, T2, T3 from its provider (keep-alive 1 s, lifetime 3 s).  The connection ends by
    CAUSE (server EOF / transport error / keep-alive time-out / explicit reconnect while healthy) with up to two
    requests pending (issued `when` = 0 before, 1 right at the moment of the reconnect request), after a SYMBOLIC
    idle time; ROUNDS consecutive reconnects.  After each: the old transport was closed, the pending requests were
    failed (exactly once), the next transport was taken and its first frame is a fresh SETUP, stream ids restart
    from 1, keep-alives flow again (at k*P of the new connection), and a request issued afterwards is answered.

    pre: 0 <= when <= 1 and (PEND is None or (pend_rr == PEND[0] and pend_rs == PEND[1] and when == PEND[2]))
    pre: 0 <= idle_us <= IDLE_MAX and 0 <= settle_us <= IDLE_MAX and 0 <= idle2_us <= IDLE_MAX
    post: _ in ALLOWED
    """
    when = conc(when, 0, 1)
    loop = new_loop()
    with loop:
        ts = [SimTransport(loop) for _ in range(ROUNDS + 2)]       # one spare: an unrequested extra reconnect would take it
        for x in ts[1:]:
            x.suspend_connect = bool(SUSPEND_CONNECT)      # the next transports' connect() suspends (e.g. a websocket handshake)
        for x in ts:
            x.close_raises = bool(CLOSE_RAISES)
            x.auto_ack = True           # a live server acknowledges keep-alives (until it goes silent for CAUSE 2)
        c = RSocketClient(provider(ts), handler_factory=_H, keep_alive_period=timedelta(microseconds=P_US),
                          max_lifetime_period=timedelta(microseconds=L_US))
        loop.create_task(c.connect())
        loop.run_ready()
        h = c._handler
        devs = []
        for r in range(ROUNDS):
            told, tnew = ts[r], ts[r + 1]
            pend = []
            if when == 0:
                if pend_rr:
                    pend.append(('rr', c.request_response(Payload(b'p'))))
                if pend_rs:
                    s = Rec()
                    c.request_stream(Payload(b's')).subscribe(s)
                    pend.append(('rs', s))
                loop.run_ready()
            elif CAUSE == 3 or True:
                # issue them in the same loop iteration as the reconnect request (after the idle time)
                pass
            idle = idle_us if r == 0 else idle2_us
            if when == 1:
                # requests issued right before the connection ends / the reconnect is requested
                if CAUSE != 2:
                    loop.advance_us(0)
                if pend_rr:
                    pend.append(('rr', c.request_response(Payload(b'p'))))
                if pend_rs:
                    s = Rec()
                    c.request_stream(Payload(b's')).subscribe(s)
                    pend.append(('rs', s))
            if FRAG_IN:
                half = to_request_response_frame(2, Payload(b'x' * 10))
                half.flags_follows = True            # first fragment only: the rest never arrives on this connection
                told.feed_wire(half)
                loop.run_ready()
            _end_connection(loop, c, told, CAUSE, idle)
            if SUSPEND_CONNECT:
                loop.advance_us(settle_us // 2)
                tnew.finish_connect()
                loop.run_ready()
            loop.advance_us(settle_us)
            # ---- old connection
            if told.closed < 1:
                devs.append('C17:old-transport-not-closed')
            for kind, x in pend:
                if kind == 'rr':
                    if not x.done():
                        devs.append('C17:pending-request-response-left-pending-across-reconnect')
                    elif not x.cancelled() and x.exception() is None:
                        devs.append('pending-request-resolved-without-a-response')
                else:
                    if grammar_dev(x.log):
                        devs.append('C17:subscriber:' + grammar_dev(x.log))
                    if terminals(x.log) != 1:
                        devs.append('C17:pending-subscription-not-failed-exactly-once')
            # ---- new connection
            new = tnew.frames()
            if not new:
                devs.append('C17:nothing-sent-on-the-new-transport(no-SETUP)')
            elif not isinstance(new[0], SetupFrame):
                devs.append('C17:first-frame-on-new-transport-not-SETUP:' + type(new[0]).__name__)
            if len([f for f in new if isinstance(f, SetupFrame)]) > 1:
                devs.append('SETUP-sent-twice-on-new-transport')
            if tnew.connect_calls != 1:
                devs.append('new-transport-connect-called-%d-times' % tnew.connect_calls)
            n0 = len(tnew.sent)
            fut = c.request_response(Payload(b'after'))
            loop.run_ready()
            reqs = [f for _, f in tnew.sent[n0:] if isinstance(f, RequestResponseFrame)]
            if len(reqs) != 1:
                devs.append('C17:request-after-reconnect-not-sent')
            elif reqs[0].stream_id != 1:
                devs.append('C17:stream-ids-do-not-restart-from-1:%d' % reqs[0].stream_id)
            else:
                tnew.feed_wire(to_payload_frame(1, Payload(b'answer'), complete=True))
                loop.run_ready()
                if not fut.done() or fut.cancelled() or fut.exception() is not None or bytes(fut.result().data) != b'answer':
                    devs.append('C17:request-after-reconnect-not-answered')
            if FRAG_IN and not devs:
                # the server's stream ids restart too: its request on stream 2 of the NEW connection is served
                n1 = len(tnew.sent)
                tnew.feed_wire(to_request_response_frame(2, Payload(b'ping')))
                loop.run_ready()
                ans = [f for _, f in tnew.sent[n1:] if f.stream_id == 2]
                if len(ans) != 1 or not isinstance(ans[0], PayloadFrame) or bytes(ans[0].data or b'') != b'pong:ping':
                    devs.append('C17:server-request-on-the-new-connection-not-served(state-of-the-old-connection-kept)')
            # ---- keep-alives flow again on the new transport
            k0 = len([f for f in tnew.frames() if isinstance(f, KeepAliveFrame)])
            loop.advance_us(P_US + 10)
            k1 = len([f for f in tnew.frames() if isinstance(f, KeepAliveFrame)])
            if k1 <= k0:
                devs.append('C17:no-KEEPALIVE-on-the-new-connection')
            if any(isinstance(f, KeepAliveFrame) for _, f in told.sent if False):
                pass
            n_old = len(told.sent)
            loop.advance_us(10)
            if len(told.sent) != n_old:
                devs.append('frame-sent-on-the-old-transport-after-reconnect')
            d = generic_dev(loop, c)
            if d:
                devs.append('C17:' + d)
            if devs:
                break
        taken = len([x for x in ts if x.connect_calls > 0])
        if not devs and taken != ROUNDS + 1:
            devs.append('C17:%d-transports-taken-for-%d-reconnects' % (taken, ROUNDS))
        stats.note(True, {'cause': CAUSE, 'rounds': ROUNDS, 'pending': [bool(pend_rr), bool(pend_rs)], 'when': when})
        loop.create_task(c.close())
        loop.run_ready()
        if loop.errors():
            devs.append('loop-exception-handler-called')
    return pick_dev(devs, ALLOWED)
