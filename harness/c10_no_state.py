"""C10 No per-stream state survives a terminated interaction (DESIGN §5 C10) - monitor over harness/hist.py."""
import vlib.env  # noqa: F401
from vlib import stats
from vlib.known import allowed, pick as pick_dev
from vlib.sim import conc

from harness.hist import run_history, describe, stream_terminated, NA, K, PREFIX, SID, BY
from harness.c07_termination import _pad

ALLOWED = allowed('C10')
FREE = K - len(PREFIX)
NCONST = vlib.env.part('nconst', True)     # request-n is not the subject here (C06/C08 have it symbolic): concrete frames run natively


def c_history(e1: int, e2: int, e3: int, e4: int, a1: bool, a2: bool, a3: bool, a4: bool, b1: bool, b2: bool,
              b3: bool, b4: bool, c1: bool, c2: bool, c3: bool, c4: bool, n: int) -> str:
    """
    K events on one interaction in role ROLE; at quiescence, if the interaction has terminated by the protocol's
    definition (response delivered, completed, error, cancel by either side, both channel directions closed in
    either order, connection closed), the endpoint holds no entry for it in the stream table nor in the
    reassembly cache (also when a fragment with FOLLOWS was pending), the id is accepted again for a new request,
    and after the bystander request finished both tables are empty.

    pre: 0 <= e1 < NA and 0 <= e2 < NA and 0 <= e3 < NA and 0 <= e4 < NA
    pre: 1 <= n <= 0x7fffffff
    post: _ in ALLOWED
    """
    ev = list(PREFIX) + [conc(e, 0, NA - 1) for e in (e1, e2, e3, e4)[:FREE]]
    o = run_history(ev, _pad((a1, a2, a3, a4), len(ev)), _pad((b1, b2, b3, b4), len(ev)),
                    _pad((c1, c2, c3, c4), len(ev)), 5 if NCONST else n)
    devs = []
    term, cause = stream_terminated(o)
    side = 'req' if o.role.endswith('_req') else 'resp'
    if term:
        if SID in o.streams_open:
            if o.role.startswith('ch_') and cause in ('peer-ERROR', 'own-ERROR', 'requester-CANCEL'):
                devs.append('C10:ch:stream-retained-after-%s-while-other-direction-open' % cause)
            else:
                devs.append('stream-table-entry-retained-after-termination:' + cause)
        if SID in o.cache_open and not o.peer_midfrag:
            # (while the peer is in the middle of a fragmented frame it will still send the rest, which clears the entry)
            devs.append('partial-frame-retained-after-termination:' + cause)
        if o.reuse_ok is False:
            devs.append('stream-id-not-reusable-after-termination')
        if not o.closed:
            if [x for x in o.streams_after_by if x != SID or o.reuse_ok is None] and not (SID in o.streams_open):
                devs.append('stream-table-not-empty-at-quiescence')
            if o.cache_after_by and not (SID in o.cache_open) and not o.peer_midfrag:
                devs.append('reassembly-cache-not-empty-at-quiescence')
    if o.partial_kept_at_end:
        devs.append('partial-frame-not-dropped-when-the-interaction-ended')
    if o.closed:
        if o.streams_open or (o.cache_open and not o.peer_midfrag):
            devs.append('state-retained-after-connection-closed')
    if o.by_ok is False:
        devs.append('bystander-request-disturbed')
    if o.loop.errors():
        devs.append('loop-exception-handler-called')
    d = describe(o)
    d['cause'] = cause
    stats.note(term and len(o.applied) >= 1, d)
    return pick_dev(devs, ALLOWED)
