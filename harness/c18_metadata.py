"""C18 Extension metadata codecs round-trip within format limits (DESIGN §5 C18)."""
import struct

import vlib.env  # noqa: F401
from vlib import stats
from vlib.env import part
from vlib.known import allowed, pick as pick_dev
from vlib.sim import pick, conc

from rsocket.exceptions import RSocketMimetypeTooLong, RSocketError, RSocketUnknownMimetype, RSocketUnknownAuthType
from rsocket.extensions.authentication import AuthenticationSimple, AuthenticationBearer
from rsocket.extensions.authentication_content import AuthenticationContent
from rsocket.extensions.authentication_types import WellKnownAuthenticationTypes
from rsocket.extensions.composite_metadata import CompositeMetadata
from rsocket.extensions.composite_metadata_item import CompositeMetadataItem
from rsocket.extensions.helpers import (composite, metadata_item, authenticate_simple, authenticate_bearer, route,
                                        data_mime_type, data_mime_types)
from rsocket.extensions.mimetypes import WellKnownMimeTypes
from rsocket.extensions.routing import RoutingMetadata
from rsocket.extensions.stream_data_mimetype import StreamDataMimetype, StreamDataMimetypes
from rsocket.extensions.tagging import TaggingMetadata
from rsocket.helpers import serialize_well_known_encoding, parse_well_known_encoding

ALLOWED = allowed('C18')
PSEUDO = (b'UNPARSEABLE_MIME_TYPE_DO_NOT_USE', b'UNKNOWN_YET_RESERVED_DO_NOT_USE')
GENERIC_WK = (WellKnownMimeTypes.APPLICATION_JSON, WellKnownMimeTypes.TEXT_PLAIN, WellKnownMimeTypes.APPLICATION_AVRO,
              WellKnownMimeTypes.APPLICATION_CLOUDEVENTS_JSON, WellKnownMimeTypes.MESSAGE_RSOCKET_TRACING_ZIPKIN,
              WellKnownMimeTypes.MESSAGE_RSOCKET_COMPOSITE_METADATA)
DEFINED_IDS = tuple(sorted(m.value.id for m in WellKnownMimeTypes if m.value.id >= 0))


def fixlen(b, n):
    if n == 0:
        return b''
    return struct.pack('>%dB' % n, *[b[i] for i in range(n)])


def _name(enc):
    if isinstance(enc, WellKnownMimeTypes):
        return enc.value.name
    if hasattr(enc, 'name') and hasattr(enc, 'id'):
        return enc.name
    return bytes(enc)


# ------------------------------------------------------------------------------------------------ MIME header
NLEN = part('nlen', 3)


def c_custom_mime_header(name: bytes, tail: bytes) -> str:
    """
    Custom MIME name of length NLEN (1..128 accepted): header byte = length-1 with the well-known bit clear,
    then the name; decoding returns the name and the right offset whatever follows.  Names equal to a well-known
    MIME name legitimately take the 1-byte form.

    pre: len(name) == NLEN and len(tail) <= 2
    pre: name != PSEUDO[0] and name != PSEUDO[1]
    post: _ in ALLOWED
    """
    name = fixlen(name, NLEN)
    try:
        h = serialize_well_known_encoding(name, WellKnownMimeTypes.get_by_name)
    except RSocketMimetypeTooLong:
        stats.note(True, {'nlen': NLEN, 'rejected': True})
        return '' if NLEN > 128 else 'mime-name-in-range-rejected'
    if NLEN > 128:
        return 'over-long-mime-name-encoded'
    wk = WellKnownMimeTypes.get_by_name(name)
    stats.note(True, {'nlen': NLEN, 'well_known': wk is not None})
    if wk is not None:
        if len(h) != 1 or h[0] != 128 + wk:
            return 'well-known-name-header-wrong'
    else:
        if len(h) != 1 + NLEN or h[0] != NLEN - 1 or h[1:] != name:
            return 'custom-mime-header-wrong'
    back, off = parse_well_known_encoding(h + tail, WellKnownMimeTypes.require_by_id)
    if bytes(back) != name:
        return 'mime-name-does-not-round-trip'
    if off != len(h):
        return 'mime-header-offset-wrong'
    return ''


def c_mime_length_boundary(n: int) -> str:
    """
    Length-only view of the limit: names of SYMBOLIC length 1..300 (content zeros) are accepted iff <= 128 bytes.

    pre: 1 <= n <= 300
    post: _ in ALLOWED
    """
    name = b'\x00' * n
    try:
        h = serialize_well_known_encoding(name, WellKnownMimeTypes.get_by_name)
        ok = True
    except RSocketMimetypeTooLong:
        ok = False
    stats.note(True)
    if ok != (n <= 128):
        return 'mime-length-limit-wrong'
    if ok and (h[0] != n - 1 or len(h) != n + 1):
        return 'custom-mime-header-wrong'
    return ''


def c_well_known_header(i: int, tail: bytes) -> str:
    """
    Well-known MIME ids: every id in 0..127; defined ones round-trip through the 1-byte header, undefined ones
    are rejected by the decoder with RSocketUnknownMimetype.

    pre: 0 <= i <= 127
    pre: len(tail) <= 2
    post: _ in ALLOWED
    """
    raw = struct.pack('>B', 128 + i) + tail
    try:
        name, off = parse_well_known_encoding(raw, WellKnownMimeTypes.require_by_id)
    except RSocketUnknownMimetype:
        stats.note(False)
        return '' if i not in DEFINED_IDS else 'defined-id-rejected'
    stats.note(True)
    if i not in DEFINED_IDS:
        return 'undefined-id-accepted'
    if off != 1:
        return 'well-known-header-offset-wrong'
    h = serialize_well_known_encoding(name, WellKnownMimeTypes.get_by_name)
    if h != raw[:1]:
        return 'well-known-name-does-not-map-back-to-its-id'
    return ''


def c_tables_bijective(i: int) -> str:
    """
    id <-> name tables (MIME and authentication) are one-to-one: every defined id maps to a name that maps back
    to exactly that id (two ids sharing a name would break this for one of them), for symbolic i over the id byte
    range and the two pseudo ids.

    pre: -2 <= i <= 127
    post: _ in ALLOWED
    """
    devs = []
    defined = 0
    for table, unknown in ((WellKnownMimeTypes, RSocketUnknownMimetype), (WellKnownAuthenticationTypes, RSocketUnknownAuthType)):
        try:
            ni = table.require_by_id(i)
        except unknown:
            ni = None
        if ni is not None:
            defined += 1
            if table.get_by_name(ni) != i:
                devs.append('name-does-not-map-back-to-id')
            if len([m for m in table if m.value.name == ni]) != 1 or len([m for m in table if m.value.id == i]) != 1:
                devs.append('duplicate-table-entry')
    stats.note(defined > 0)
    return pick_dev(devs, ALLOWED)


# ------------------------------------------------------------------------------------------------ tags
TLENS = part('tlens', [1, 0, 2])


def c_tags(t0: bytes, t1: bytes, t2: bytes, n: int) -> str:
    """
    Routing / tagging metadata: n <= 3 tags of lengths TLENS (0..255) with symbolic content round-trip;
    re-encoding reproduces the bytes.

    pre: 0 <= n <= 3
    pre: len(t0) == TLENS[0] and len(t1) == TLENS[1] and len(t2) == TLENS[2]
    post: _ in ALLOWED
    """
    n = conc(n, 0, 3)
    tags = [fixlen(t0, TLENS[0]), fixlen(t1, TLENS[1]), fixlen(t2, TLENS[2])][:n]
    item = route(*tags) if part('via_helper', True) else RoutingMetadata(list(tags))
    raw = item.serialize()
    want = b''.join(struct.pack('>B', len(t)) + t for t in tags)
    stats.note(n >= 1, {'n': n, 'tlens': list(TLENS)})
    if raw != want:
        return 'tag-encoding-wrong'
    back = RoutingMetadata()
    back.parse(raw)
    if [bytes(t) for t in back.tags] != tags:
        return 'tags-do-not-round-trip'
    if back.serialize() != raw:
        return 're-encoding-differs'
    if not (back == item):
        return 'decoded-item-not-equal'
    return ''


def c_tag_length_boundary(n: int) -> str:
    """
    Tags of SYMBOLIC length 250..260 are accepted iff <= 255 bytes; an over-long tag produces no bytes.

    pre: 250 <= n <= 260
    post: _ in ALLOWED
    """
    tag = b'\x07' * n
    item = TaggingMetadata(b'x/y', [b'a', tag])
    try:
        raw = item.serialize()
        ok = True
    except RSocketError:
        ok = False
    stats.note(True)
    if ok != (n <= 255):
        return 'tag-length-limit-wrong'
    if ok and (len(raw) != 2 + 1 + n or raw[2] != n):
        return 'tag-encoding-wrong'
    return ''


# ------------------------------------------------------------------------------------------------ authentication
ALENS = part('alens', [2, 3])


def c_auth(kind: int, a: bytes, b: bytes) -> str:
    """
    Authentication entries: simple (user, password) and bearer (token), symbolic contents of lengths ALENS.

    pre: 0 <= kind <= 1
    pre: len(a) == ALENS[0] and len(b) == ALENS[1]
    post: _ in ALLOWED
    """
    a = fixlen(a, ALENS[0])
    b = fixlen(b, ALENS[1])
    if kind == 0:
        item = AuthenticationContent(AuthenticationSimple(a, b))
        want = b'\x80' + struct.pack('>H', len(a)) + a + b
    else:
        item = AuthenticationContent(AuthenticationBearer(a))
        want = b'\x81' + a
    raw = bytes(item.serialize())
    stats.note(True, {'kind': kind, 'alens': list(ALENS)})
    if raw != want:
        return 'authentication-encoding-wrong'
    back = AuthenticationContent()
    back.parse(raw)
    if kind == 0:
        if not isinstance(back.authentication, AuthenticationSimple):
            return 'decoded-wrong-authentication-class'
        if bytes(back.authentication.username) != a or bytes(back.authentication.password) != b:
            return 'credentials-do-not-round-trip'
    else:
        if not isinstance(back.authentication, AuthenticationBearer) or bytes(back.authentication.token) != a:
            return 'token-does-not-round-trip'
    if bytes(back.serialize()) != raw:
        return 're-encoding-differs'
    return ''


# ------------------------------------------------------------------------------------------------ composite lists
KINDS = part('kinds', [0, 1])
CLEN = part('clen', 2)
NAMELEN = part('namelen', 3)


def _entry(kind, wk_i, a, b):
    """returns (item, expected (class, fields) after decode)"""
    if kind == 0:       # generic entry, well-known MIME
        wk = pick(wk_i, GENERIC_WK)
        return metadata_item(a, wk), ('item', wk.value.name, a)
    if kind == 1:       # generic entry, custom MIME name b
        return metadata_item(a, b), ('item', b, a)
    if kind == 2:
        return route(a, b), ('route', [a, b])
    if kind == 3:
        return AuthenticationContent(AuthenticationSimple(a, b)), ('simple', a, b)
    if kind == 4:
        return AuthenticationContent(AuthenticationBearer(a)), ('bearer', a)
    if kind == 5:
        wk = pick(wk_i, GENERIC_WK)
        return data_mime_type(wk.value), ('mime', wk.value.name)
    if kind == 6:
        return data_mime_type(b), ('mime', b)
    wk = pick(wk_i, GENERIC_WK)
    return data_mime_types(wk, b), ('mimes', [wk.value.name, b])


def _matches(item, exp):
    k = exp[0]
    if k == 'item':
        return (type(item) is CompositeMetadataItem and _name(item.encoding) == exp[1]
                and bytes(item.content) == exp[2])
    if k == 'route':
        return type(item) is RoutingMetadata and [bytes(t) for t in item.tags] == exp[1]
    if k == 'simple':
        return (type(item) is AuthenticationContent and isinstance(item.authentication, AuthenticationSimple)
                and bytes(item.authentication.username) == exp[1] and bytes(item.authentication.password) == exp[2])
    if k == 'bearer':
        return (type(item) is AuthenticationContent and isinstance(item.authentication, AuthenticationBearer)
                and bytes(item.authentication.token) == exp[1])
    if k == 'mime':
        return type(item) is StreamDataMimetype and _name(item.data_encoding) == exp[1]
    if k == 'mimes':
        return type(item) is StreamDataMimetypes and [_name(x) for x in item.data_encodings] == exp[1]
    return False


def c_composite(w0: int, w1: int, w2: int, a0: bytes, b0: bytes, a1: bytes, b1: bytes, a2: bytes, b2: bytes) -> str:
    """
    Composite metadata made of entries of kinds KINDS (0 generic/well-known, 1 generic/custom MIME, 2 routing tags,
    3 simple auth, 4 bearer auth, 5/6 per-stream data MIME type well-known/custom, 7 accepted MIME types) with
    symbolic contents: encode -> decode gives the same entries in order; decode -> encode reproduces the bytes.

    pre: 0 <= w0 <= 5 and 0 <= w1 <= 5 and 0 <= w2 <= 5
    pre: len(a0) == CLEN and len(a1) == CLEN and len(a2) == CLEN
    pre: len(b0) == NAMELEN and len(b1) == NAMELEN and len(b2) == NAMELEN
    pre: all(WellKnownMimeTypes.get_by_name(x) is None for x in (b0, b1, b2))
    post: _ in ALLOWED
    """
    ws = (w0, w1, w2)
    as_ = (fixlen(a0, CLEN), fixlen(a1, CLEN), fixlen(a2, CLEN))
    bs = (fixlen(b0, NAMELEN), fixlen(b1, NAMELEN), fixlen(b2, NAMELEN))
    items = []
    exps = []
    for idx, kind in enumerate(KINDS):
        it, exp = _entry(kind, ws[idx], as_[idx], bs[idx])
        items.append(it)
        exps.append(exp)
    raw = composite(*items)
    back = CompositeMetadata()
    back.parse(raw)
    stats.note(len(items) >= 2, {'kinds': list(KINDS), 'clen': CLEN, 'namelen': NAMELEN})
    if len(back.items) != len(items):
        return 'entry-count-differs'
    for it, exp in zip(back.items, exps):
        if not _matches(it, exp):
            return 'entry-does-not-round-trip:' + exp[0]
    if back.serialize() != raw:
        return 're-encoding-differs'
    return ''


def c_entry_length_field(n: int) -> str:
    """
    24-bit entry length: an entry whose content has SYMBOLIC length 0..300 or around 2^16 (zeros; the 24-bit packer itself is covered over its
    full range by C02 c_bits24) carries exactly that length
    and the following entry is found right behind it.

    pre: 0 <= n <= 300 or 65530 <= n <= 65540
    post: _ in ALLOWED
    """
    raw = composite(metadata_item(b'\x00' * n, WellKnownMimeTypes.TEXT_PLAIN), route(b'r'))
    stats.note(True)
    if len(raw) != 1 + 3 + n + 1 + 3 + 2:
        return 'composite-length-wrong'
    if raw[1] * 65536 + raw[2] * 256 + raw[3] != n:
        return 'entry-length-field-wrong'
    return ''
