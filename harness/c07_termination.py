"""C07 Every interaction terminates at most once at the API (DESIGN §5 C07) - monitor over harness/hist.py."""
import vlib.env  # noqa: F401
from vlib import stats
from vlib.known import allowed, pick as pick_dev
from vlib.sim import conc, grammar_dev, terminals

from harness import hist
from harness.hist import run_history, describe, NA, K, PREFIX, SID
from rsocket.frame import ErrorFrame

ALLOWED = allowed('C07')
FREE = K - len(PREFIX)
NCONST = vlib.env.part('nconst', True)     # request-n is not the subject here (C06/C08 have it symbolic): concrete frames run natively


def c_history(e1: int, e2: int, e3: int, e4: int, a1: bool, a2: bool, a3: bool, a4: bool, b1: bool, b2: bool,
              b3: bool, b4: bool, c1: bool, c2: bool, c3: bool, c4: bool, n: int) -> str:
    """
    K events (PREFIX fixed per process, the rest symbolic) on one interaction in role ROLE, then a final connection
    loss.  Every subscriber the library drives sees on_subscribe . on_next* . (one terminal)? and nothing after
    it; a request-response awaitable is resolved exactly once (no InvalidStateError anywhere, no frame emitted in
    reaction to one); the bystander request is resolved exactly once with its own answer.

    pre: 0 <= e1 < NA and 0 <= e2 < NA and 0 <= e3 < NA and 0 <= e4 < NA
    pre: 1 <= n <= 0x7fffffff
    post: _ in ALLOWED
    """
    ev = list(PREFIX) + [conc(e, 0, NA - 1) for e in (e1, e2, e3, e4)[:FREE]]
    o = run_history(ev, _pad((a1, a2, a3, a4), len(ev)), _pad((b1, b2, b3, b4), len(ev)),
                    _pad((c1, c2, c3, c4), len(ev)), 5 if NCONST else n)
    devs = []
    role = o.role
    for name, sub in (('requester-subscriber', o.sub), ('channel-responder-subscriber', o.rsub)):
        if sub is not None:
            g = grammar_dev(sub.log)
            if g:
                devs.append('C07:%s:%s:%s' % (role, name, g))
    if role == 'rr_req':
        if not o.fut.done():
            devs.append('request-response-awaitable-left-pending-after-connection-loss')
        if any(isinstance(f, ErrorFrame) and f.stream_id == SID for f in o.t.frames()):
            devs.append('C07:rr_req:awaitable-resolved-twice(ERROR-emitted-by-requester)')
    if o.loop.errors():
        devs.append('loop-exception-handler-called')
    if o.loop.livelock:
        devs.append('livelock')
    if o.by_ok is False:
        devs.append('bystander-request-disturbed')
    if hasattr(o, 'by') and o.role.endswith('_req') and not o.by.done():
        devs.append('bystander-awaitable-left-pending-after-connection-loss')
    nterm = (terminals(o.sub.log) if o.sub is not None else 0) + (terminals(o.rsub.log) if o.rsub is not None else 0)
    stats.note(len(o.applied) >= 2, describe(o))
    return pick_dev(devs, ALLOWED)


def _pad(flags, n):
    """flags for PREFIX events are taken from the same symbolic pool (all events have symbolic flags)"""
    fl = list(flags)
    while len(fl) < n:
        fl.append(flags[len(fl) % 4])
    return fl[:n]
