"""C19 Routed dispatch is exact and the authentication gate cannot be bypassed (DESIGN §5 C19)."""
import struct

import vlib.env  # noqa: F401
from vlib import stats
from vlib.env import part
from vlib.known import allowed, pick as pick_dev
from vlib.sim import new_loop, SimTransport, Rec, generic_dev, pick, conc, concb

from rsocket.extensions.authentication import AuthenticationSimple, AuthenticationBearer
from rsocket.extensions.composite_metadata import CompositeMetadata
from rsocket.extensions.helpers import composite, route, authenticate_simple, authenticate_bearer, metadata_item
from rsocket.extensions.mimetypes import WellKnownMimeTypes
from rsocket.frame import ErrorFrame, PayloadFrame, SetupFrame, MetadataPushFrame
from rsocket.frame_builders import (to_request_response_frame, to_request_stream_frame, to_request_channel_frame,
                                    to_fire_and_forget_frame)
from rsocket.helpers import create_future
from rsocket.payload import Payload
from rsocket.routing.request_router import RequestRouter
from rsocket.routing.routing_request_handler import RoutingRequestHandler
from rsocket.rsocket_server import RSocketServer
from rsocket.streams.stream_from_generator import StreamFromGenerator

ALLOWED = allowed('C19')
RT = part('rt', 0)                 # request type: 0 response, 1 stream, 2 channel, 3 fire-and-forget, 4 metadata-push
AUTH = part('auth', [0, 0])        # [verifier: 0 none / 1 accepts / 2 rejects, auth entry: 0 absent / 1 simple / 2 bearer]
DECOYS = part('decoys', None)      # None: symbolic
STYLES = part('styles', [0, 1, 2, 3, 4])
POSITIONS = part('positions', [0, 1, 2])
TYPES = ('response', 'stream', 'channel', 'fire_and_forget', 'metadata_push')
ROUTES = ('a', 'b')


def fixlen(b, n):
    if n == 0:
        return b''
    return struct.pack('>%dB' % n, *[b[i] for i in range(n)])


class Msg:
    """application message type for handlers that declare an annotated payload parameter (style 4)"""

    def __init__(self, raw):
        self.raw = raw


def _deserialize(cls, payload):
    return cls(bytes(payload.data or b'')) if cls is Msg else payload


def _make_router(log, t_reg, u_reg, d_reg, style, target_type, target_route):
    router = RequestRouter(payload_deserializer=_deserialize) if style == 4 else RequestRouter()

    def mk(name, tname):
        """handler in parameter style `style`; returns what its interaction type expects"""
        def result():
            if tname == 'response':
                f = create_future()
                f.set_result(Payload(('R:' + name).encode()))
                return f
            if tname in ('stream', 'channel'):
                def gen():
                    yield Payload(('S:' + name).encode()), True
                pub = StreamFromGenerator(gen)
                return (pub, Rec()) if tname == 'channel' else pub
            return None

        if style == 0:
            async def h():
                log.append((name, None, None))
                return result()
        elif style == 1:
            async def h(payload):
                log.append((name, bytes(payload.data or b''), None))
                return result()
        elif style == 2:
            async def h(composite_metadata):
                log.append((name, None, len(composite_metadata.items)))
                return result()
        elif style == 3:
            async def h(p: Payload, cm: CompositeMetadata):
                log.append((name, bytes(p.data or b''), len(cm.items)))
                return result()
        else:
            async def h(message: Msg, payload: Payload, composite_metadata):
                ok = isinstance(message, Msg) and isinstance(payload, Payload) and message.raw == bytes(payload.data or b'')
                log.append((name, bytes(payload.data or b'') if ok else b'<parameters-not-as-annotated>', len(composite_metadata.items)))
                return result()
        return h

    for ti, tname in enumerate(TYPES):
        for r in ROUTES:
            is_target = (ti == target_type and r == target_route)
            if (is_target and t_reg) or (not is_target and d_reg):
                getattr(router, tname)(r)(mk('%s/%s' % (tname, r), tname))
        is_target_unknown = ti == target_type
        if (is_target_unknown and u_reg) or (not is_target_unknown and d_reg):
            getattr(router, tname + '_unknown')()(mk('%s/?' % tname, tname))
    return router


def c_dispatch(t_reg: bool, u_reg: bool, d_reg: bool, style: int, ri: int, pos: int, two_tags: bool,
               filler: bytes) -> str:
    """
    A real server with RoutingRequestHandler.  Route table: handler for the target (type RT, requested route)
    registered or not, unknown-route handler for RT registered or not, every OTHER (type, route) handler and other
    types' unknown handlers (decoys) registered or not; handlers in parameter style 0..3 (none / payload / annotated
    composite metadata / both / a deserialized message type + the raw payload + composite metadata).  Request of type RT with route in {a, b, unregistered}, the route entry first /
    middle / last in the composite metadata (optionally with a second tag), an authentication entry and a verifier
    as in AUTH, a filler entry with symbolic content; a second, fully populated RequestRouter exists in the process but is
    not installed on this server.  Oracle = reference dispatch: exactly the right handler ran
    exactly once with the right arguments, the requester sees its value, or an error on that request alone; with a
    verifier configured NO handler of any type runs unless an authentication entry is present and accepted.

    pre: 0 <= style <= 4 and 0 <= ri <= 2 and 0 <= pos <= 2 and style in STYLES and pos in POSITIONS
    pre: DECOYS is None or d_reg == DECOYS
    pre: len(filler) == 2
    post: _ in ALLOWED
    """
    filler = fixlen(filler, 2)
    style = conc(style, 0, 4)
    ri = conc(ri, 0, 2)
    pos = conc(pos, 0, 2)
    t_reg, u_reg, d_reg, two_tags = concb(t_reg), concb(u_reg), concb(d_reg), concb(two_tags)
    verifier_kind, auth_kind = AUTH
    req_route = ('a', 'b', 'zz')[ri]
    target_route = req_route if req_route in ROUTES else 'a'
    log = []
    verified = []
    # another route table living in the same process (e.g. the client side's own router): fully populated, never
    # installed on this server - none of its handlers may ever run for this server's requests
    foreign_log = []
    _make_router(foreign_log, True, True, True, style, RT, target_route)
    router = _make_router(log, t_reg and req_route in ROUTES, u_reg, d_reg, style, RT, target_route)

    async def verifier(route_name, authentication):
        verified.append((route_name, type(authentication).__name__))
        if verifier_kind == 2:
            raise Exception('rejected')

    def factory():
        return RoutingRequestHandler(router, verifier if verifier_kind else None)

    entries = [metadata_item(filler, WellKnownMimeTypes.TEXT_PLAIN)]
    if auth_kind == 1:
        entries.append(authenticate_simple('user', 'pw'))
    elif auth_kind == 2:
        entries.append(authenticate_bearer('tok'))
    rentry = route(req_route, 'other') if two_tags else route(req_route)
    p = min(pos, len(entries))
    if pos == 2:
        p = len(entries)
    entries.insert(p, rentry)
    md = composite(*entries)
    payload = Payload(b'DATA', md)
    loop = new_loop()
    with loop:
        t = SimTransport(loop)
        s = RSocketServer(t, handler_factory=factory)
        loop.run_ready()
        setup = SetupFrame()
        setup.keep_alive_milliseconds = 1000
        setup.max_lifetime_milliseconds = 5000
        setup.data_encoding = b'application/octet-stream'
        setup.metadata_encoding = WellKnownMimeTypes.MESSAGE_RSOCKET_COMPOSITE_METADATA.value.name
        t.feed_wire(setup)
        loop.run_ready()
        sid = 5
        if RT == 0:
            fr = to_request_response_frame(sid, payload)
        elif RT == 1:
            fr = to_request_stream_frame(sid, payload, initial_request_n=3)
        elif RT == 2:
            fr = to_request_channel_frame(sid, payload, initial_request_n=3, complete=True)
        elif RT == 3:
            fr = to_fire_and_forget_frame(sid, payload)
        else:
            fr = MetadataPushFrame()
            fr.metadata = md
            sid = 0
        t.feed_wire(fr)
        loop.run_ready()
        loop.advance_us(1000)
        # bystander request on another stream: a plain registered route must still be served (when decoys exist)
        devs = []
        out = [f for f in t.frames() if f.stream_id == sid and not isinstance(f, SetupFrame)]
        errs = [f for f in out if isinstance(f, ErrorFrame)]
        pays = [f for f in out if isinstance(f, PayloadFrame)]
        tname = TYPES[RT]
        # ---- reference dispatch
        gate_open = verifier_kind == 0 or (auth_kind != 0 and verifier_kind == 1)
        if not gate_open:
            want = None
        elif req_route in ROUTES and t_reg:
            want = '%s/%s' % (tname, req_route)
        elif u_reg:
            want = '%s/?' % tname
        else:
            want = None
        ran = [x[0] for x in log]
        if foreign_log:
            devs.append('C19:handler-of-another-route-table-ran:' + foreign_log[0][0])
        stats.note(True, {'rt': RT, 'auth': list(AUTH), 'want': want, 'style': style, 'route': req_route, 'pos': pos})
        if not gate_open and ran:
            devs.append('C19:authentication-gate-bypassed:handler-ran-without-accepted-authentication')
        if verifier_kind and auth_kind and len(verified) != 1:
            devs.append('verifier-not-consulted-exactly-once')
        if verifier_kind and auth_kind and verified and verified[0][0] != req_route:
            devs.append('verifier-given-wrong-route')
        if want is None:
            if gate_open and ran:
                devs.append('handler-ran-for-unroutable-request:' + ran[0])
            if RT in (0, 1, 2):
                if len(errs) != 1 or pays:
                    devs.append('unroutable-or-unauthenticated-request-not-failed-with-one-ERROR')
            elif out:
                devs.append('one-way-request-produced-frames')
        else:
            if ran != [want]:
                devs.append('C19:wrong-handler-dispatched:%s-instead-of-%s' % (','.join(ran) or 'none', want))
            else:
                name, pdata, ncm = log[0]
                if style in (1, 3, 4) and pdata != (b'DATA' if RT != 4 else b''):
                    devs.append('handler-got-wrong-payload')
                if style in (2, 3, 4) and ncm != len(entries):
                    devs.append('handler-got-wrong-composite-metadata')
                if RT == 0:
                    if errs or len(pays) != 1 or bytes(pays[0].data) != ('R:' + want).encode():
                        devs.append('requester-did-not-receive-the-handlers-response')
                elif RT in (1, 2):
                    if errs or len(pays) != 1 or bytes(pays[0].data) != ('S:' + want).encode():
                        devs.append('requester-did-not-receive-the-handlers-stream')
                elif out:
                    devs.append('one-way-request-produced-frames')
        if any(isinstance(f, ErrorFrame) and f.stream_id != sid for f in t.frames()):
            devs.append('ERROR-on-another-stream')
        d = generic_dev(loop, s)
        if d:
            devs.append(d)
        t.eof()
        loop.run_ready()
        if loop.errors():
            devs.append('loop-exception-handler-called')
    return pick_dev(devs, ALLOWED)
