"""Failing application code for C12: handlers whose entry point ENTRY fails in manner `how`, per adapter."""
import asyncio

from rsocket.frame import (SetupFrame, MetadataPushFrame, ErrorFrame)
from rsocket.error_codes import ErrorCode
from rsocket.frame_builders import (to_request_response_frame, to_request_stream_frame, to_request_channel_frame,
                                    to_fire_and_forget_frame, to_metadata_push_frame)
from rsocket.helpers import create_future, create_error_future
from rsocket.payload import Payload
from rsocket.request_handler import BaseRequestHandler
from rsocket.streams.stream_from_generator import StreamFromGenerator
from vlib.sim import RecPub, Rec


EXC = None      # set by build_handler: the exception class application code raises


class Boom(RuntimeError):
    pass


class BoomOS(ConnectionResetError):      # an OSError: must not be mistaken for a lost transport
    pass


class BoomTimeout(TimeoutError):         # what asyncio.wait_for raises (an OSError subclass since 3.11)
    pass


class BoomKey(KeyError):
    pass


class BoomCode(RuntimeError):             # carries a single argument that is not text, as KeyError(404) or MyError(code) do
    def __init__(self, *args):
        super().__init__(404)


KINDS = (Boom, BoomOS, BoomTimeout, BoomKey, BoomCode)


def _ok(v):
    f = create_future()
    f.set_result(v)
    return f


def trigger_frame(entry, sid):
    if entry == 'on_setup':
        f = SetupFrame()
        f.keep_alive_milliseconds = 1000
        f.max_lifetime_milliseconds = 2000
        f.data_encoding = b'a/b'
        f.metadata_encoding = b'c/d'
        return f, 0
    if entry == 'request_response':
        return to_request_response_frame(sid, Payload(b'fail')), sid
    if entry == 'request_stream':
        return to_request_stream_frame(sid, Payload(b'fail'), initial_request_n=5), sid
    if entry == 'request_channel':
        return to_request_channel_frame(sid, Payload(b'fail'), initial_request_n=5), sid
    if entry == 'request_fire_and_forget':
        return to_fire_and_forget_frame(sid, Payload(b'fail')), sid
    if entry == 'on_metadata_push':
        return to_metadata_push_frame(b'fail'), 0
    f = ErrorFrame()          # on_error: a connection-level ERROR from the peer reaches handler.on_error
    f.stream_id = 0
    f.error_code = ErrorCode.CONNECTION_ERROR
    f.data = b'fail'
    return f, 0


async def _fail(how):
    if how == 0:
        raise Boom('immediately')
    await asyncio.sleep(0)
    raise Boom('after first await')


def _failing_publisher(how):
    if how == 2:
        return RecPub(raise_on_subscribe=True)
    if how == 3:
        return RecPub(raise_on_request=True)

    def gen():
        yield Payload(b'1'), False
        raise Boom('generator failed at the second element')
    return StreamFromGenerator(gen)


def build_handler(adapter, entry, how, exc_kind=0):
    global Boom
    Boom = KINDS[exc_kind]
    rec = {'delegate_calls': []}
    if adapter == 'plain':
        class H(BaseRequestHandler):
            async def on_setup(self, de, me, payload):
                if entry == 'on_setup':
                    await _fail(how)

            async def request_response(self, payload):
                if entry == 'request_response' and payload.data == b'fail':
                    if how == 2:
                        return create_error_future(Boom('failing future'))
                    await _fail(min(how, 1))
                return _ok(Payload(b'pong'))

            async def request_stream(self, payload):
                if how in (0, 1):
                    await _fail(how)
                return _failing_publisher(how)

            async def request_channel(self, payload):
                if how in (0, 1):
                    await _fail(how)
                return _failing_publisher(how), Rec()

            async def request_fire_and_forget(self, payload):
                await _fail(min(how, 1))

            async def on_metadata_push(self, payload):
                await _fail(min(how, 1))

            async def on_error(self, code, payload):
                if entry == 'on_error':
                    await _fail(min(how, 1))
        return H, rec
    if adapter == 'reactivex':
        import reactivex
        from rsocket.reactivex.reactivex_handler import BaseReactivexHandler
        from rsocket.reactivex.reactivex_handler_adapter import reactivex_handler_factory
        from rsocket.reactivex.reactivex_channel import ReactivexChannel
        rxm = reactivex
    else:
        import rx
        from rsocket.rx_support.rx_handler import BaseRxHandler as BaseReactivexHandler
        from rsocket.rx_support.rx_handler_adapter import rx_handler_factory as reactivex_handler_factory
        from rsocket.rx_support.rx_channel import RxChannel as ReactivexChannel
        rxm = rx

    def failing_observable():
        if how == 2:
            return rxm.throw(Boom('failing observable'))
        return rxm.concat(rxm.from_iterable([Payload(b'1')]), rxm.throw(Boom('observable failed at the second element')))

    class D(BaseReactivexHandler):
        async def on_setup(self, de, me, payload):
            if entry == 'on_setup':
                await _fail(how)

        async def request_response(self, payload):
            if entry == 'request_response' and payload.data == b'fail':
                if how >= 2:
                    return rxm.throw(Boom('failing observable'))
                await _fail(how)
            return rxm.of(Payload(b'pong'))

        async def request_stream(self, payload):
            if how in (0, 1):
                await _fail(how)
            return failing_observable()

        async def request_channel(self, payload):
            if how in (0, 1):
                await _fail(how)
            return ReactivexChannel(failing_observable())

        async def request_fire_and_forget(self, payload):
            await _fail(min(how, 1))

        async def on_metadata_push(self, payload):
            rec['delegate_calls'].append('on_metadata_push')
            await _fail(min(how, 1))

        async def on_error(self, code, payload):
            if entry == 'on_error':
                await _fail(min(how, 1))
    return reactivex_handler_factory(D), rec
