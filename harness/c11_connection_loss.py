"""C11 Connection loss or close fails everything pending, exactly once (DESIGN §5 C11)."""
from datetime import timedelta

import vlib.env  # noqa: F401
from vlib import stats
from vlib.env import part
from vlib.known import allowed, pick as pick_dev
from vlib.sim import (new_loop, Pipe, SimTransport, provider, Rec, RecPub, generic_dev, conc, concb, grammar_dev, terminals)

from rsocket.exceptions import RSocketProtocolError, RSocketTransportError
from rsocket.frame import (serialize_with_frame_size_header, KeepAliveFrame, parse_or_ignore, SetupFrame)
from rsocket.frame_builders import (to_request_response_frame, to_request_stream_frame, to_request_channel_frame,
                                    to_request_n_frame, to_payload_frame, to_setup_frame)
from rsocket.frame_parser import FrameParser
from rsocket.helpers import create_future
from rsocket.payload import Payload
from rsocket.request_handler import BaseRequestHandler
from rsocket.rsocket_client import RSocketClient
from rsocket.rsocket_server import RSocketServer
from rsocket.transports.tcp import TransportTCP

ALLOWED = allowed('C11')
ROLE = part('role', 'server')
OWN = part('own', ['rr', 'rs'])            # interactions the endpoint under test has opened itself
INB = part('inb', ['rr', 'rs'])            # request frames the peer sends (in this order) inside the byte stream
RAISING = part('raising', False)           # one responder publisher's cancel() raises
FRAG_TAIL = part('frag_tail', True)        # the inbound stream ends with a fragmented PAYLOAD (3 fragments) for an own stream
MODE = part('mode', None)                  # None: symbolic
ON_CLOSE = part('on_close', 0)             # application's on_close: 0 returns, 1 raises, 2 does not return for a long time


class _H(BaseRequestHandler):
    def __init__(self):
        self.futs = []
        self.pubs = []
        self.subs = []
        self.closed = 0
        self.suspended = 0

    async def request_response(self, payload):
        f = create_future()
        self.futs.append(f)
        return f

    async def request_stream(self, payload):
        p = RecPub(raise_on_cancel=RAISING and not self.pubs)
        self.pubs.append(p)
        return p

    async def request_channel(self, payload):
        p = RecPub()
        s = Rec()
        self.pubs.append(p)
        self.subs.append(s)
        return p, s

    async def on_close(self, rsocket, exception=None):
        self.closed += 1
        if ON_CLOSE == 1:
            raise RuntimeError('application on_close failed')
        if ON_CLOSE == 2:
            await create_future()          # a slow clean-up / reconnect back-off: never returns within the scenario


def _inbound(own_first_id, peer_ids):
    """bytes the peer sends: its requests, a REQUEST_N, then a 3-fragment PAYLOAD answering the endpoint's first own stream"""
    out = b''
    marks = []
    for kind, sid in zip(INB, peer_ids):
        if kind == 'rr':
            fr = to_request_response_frame(sid, Payload(b'abc', b'm'))
        elif kind == 'rs':
            fr = to_request_stream_frame(sid, Payload(b'st'), initial_request_n=2)
        else:
            fr = to_request_channel_frame(sid, Payload(b'ch'), initial_request_n=1)
        out += serialize_with_frame_size_header(fr)
        marks.append(len(out))
    if INB:
        out += serialize_with_frame_size_header(to_request_n_frame(peer_ids[0], 3))
    if FRAG_TAIL and OWN:
        big = to_payload_frame(own_first_id, Payload(b'D' * 130), complete=False)
        big.fragment_size_bytes = 64
        while True:
            fr = big.get_next_fragment(True)
            if fr is None:
                break
            out += serialize_with_frame_size_header(fr)
    return out


with new_loop():
    SERVER_IN = _inbound(2, (1, 3, 5))
    CLIENT_IN = _inbound(1, (2, 4, 6))


def c_cut(c: int, mode: int, settle_ms: int) -> str:
    """
    A real endpoint (ROLE) on the real TransportTCP with pending interactions OWN (opened by itself) and INB
    (opened by the peer, as far as their request frames arrived): the inbound byte stream is cut at SYMBOLIC byte
    offset c - between any two bytes, inside a length prefix, a header, or a fragmented frame - followed by
    mode 0: orderly EOF, 1: transport error on read, 2: the application calls close(), 3: the next write fails.
    After settling (symbolic time incl. several keep-alive periods): every own pending request failed with a
    connection error exactly once, every responder publisher / handler future cancelled, on_close delivered exactly
    once, nothing written after the cut (keep-alives included), both tasks finished, no stream left.

    pre: 0 <= c <= CUT_MAX
    pre: 0 <= mode <= 3 and (MODE is None or mode == MODE)
    pre: 0 <= settle_ms <= 5000
    post: _ in ALLOWED
    """
    mode = conc(mode, 0, 3)
    loop = new_loop()
    with loop:
        inbound = Pipe(loop)
        outbound = Pipe(loop)
        tr = TransportTCP(inbound.reader, outbound)
        if ROLE == 'server':
            ep = RSocketServer(tr, handler_factory=_H)
            data = SERVER_IN
        else:
            ep = RSocketClient(provider([tr]), handler_factory=_H, keep_alive_period=timedelta(seconds=1),
                               max_lifetime_period=timedelta(seconds=1000))
            loop.create_task(ep.connect())
            data = CLIENT_IN
        loop.run_ready()
        h = ep._handler
        own = []
        for kind in OWN:
            if kind == 'rr':
                own.append(('rr', ep.request_response(Payload(b'mine'))))
            elif kind == 'rs':
                s = Rec()
                ep.request_stream(Payload(b'st')).subscribe(s)
                own.append(('rs', s))
            else:
                s = Rec()
                p = RecPub()
                ep.request_channel(Payload(b'ch'), p).subscribe(s)
                own.append(('ch', s, p))
        loop.run_ready()
        inbound.reader.feed_data(data[:c])
        loop.run_ready()
        written_before = len(outbound.written)
        pending = []          # own interactions still pending at the moment of the cut
        for item in own:
            if item[0] == 'rr':
                pending.append(not item[1].done())
            else:
                pending.append(terminals(item[1].log) == 0)
        n_resp_futs = len(h.futs)
        n_resp_pubs = len(h.pubs)
        if mode == 0:
            inbound.reader.feed_eof()
        elif mode == 1:
            inbound.reader.set_exception(ConnectionResetError())
        elif mode == 2:
            loop.create_task(ep.close())
        else:
            outbound.fail_writes = True
            trig = ep.request_response(Payload(b'trigger a write'))       # its frame cannot be written
            own.append(('rr', trig))
            pending.append(True)
            loop.run_ready()
            inbound.reader.feed_eof()                              # the peer's side of a reset connection
        loop.run_ready()
        written_at_loss = len(outbound.written)
        loop.advance_us(settle_ms * 1000)
        loop.advance_us(3000000)
        devs = []
        for item, was_pending in zip(own, pending):
            if not was_pending:
                if item[0] != 'rr' and grammar_dev(item[1].log):
                    devs.append('C11:subscriber:' + grammar_dev(item[1].log))
                continue
            if item[0] == 'rr':
                f = item[1]
                if not f.done():
                    devs.append('C11:own-request-response-left-pending')
                elif f.cancelled() or f.exception() is None:
                    devs.append('own-request-response-not-failed-with-an-error')
                elif not isinstance(f.exception(), (RSocketProtocolError, RSocketTransportError)):
                    devs.append('own-request-response-failed-with-non-connection-error')
            else:
                s = item[1]
                g = grammar_dev(s.log)
                if g:
                    devs.append('C11:subscriber:' + g)
                if terminals(s.log) != 1 or s.log[-1][:2] != 'E:':
                    devs.append('C11:own-subscription-not-failed-exactly-once')
                if item[0] == 'ch' and item[2].sub is not None and item[2].cancelled < 1 and not item[2].done:
                    devs.append('C11:own-channel-publisher-not-cancelled')
        for f in h.futs:
            if not f.done():
                devs.append('C11:handler-future-left-pending')
        for p in h.pubs:
            if p.sub is not None and not p.done and p.cancelled < 1:
                devs.append('C11:responder-publisher-not-cancelled')
        strict = ON_CLOSE == 0
        if h.closed != 1:
            devs.append('C11:on_close-delivered-%d-times' % h.closed)
        if strict and mode != 3 and len(outbound.written) != written_at_loss:
            devs.append('C11:frame-written-after-connection-ended')
        if mode in (0, 1) and written_at_loss != written_before:
            devs.append('C11:frame-written-in-reaction-to-connection-loss')
        if ep._stream_control._streams:
            devs.append('C11:streams-left-registered')
        d = generic_dev(loop, ep, expect_closed=True) if strict else ''
        if d:
            devs.append('C11:' + d)
        kt = getattr(ep, '_keepalive_task', None)
        if strict and kt is not None and not kt.done():
            devs.append('C11:keepalive-task-alive')
        stats.note(len(h.futs) + len(h.pubs) + len(own) >= 2,
                   {'role': ROLE, 'mode': mode, 'own': list(OWN), 'responder_futs': n_resp_futs, 'responder_pubs': n_resp_pubs})
        if ROLE == 'client':
            loop.create_task(ep.close())
            loop.run_ready()
    return pick_dev(devs, ALLOWED)


SRC = part('src', 'gen')                   # library stream source of c_loss_library_sources
MSRC = 6


def c_loss_library_sources(when: int, mode: int, chan: bool) -> str:
    """
    A responder whose publisher is one of the library's own stream sources (SRC: generator / async generator /
    reactivex / Rx observable) over MSRC elements, requested by REQUEST_STREAM or REQUEST_CHANNEL (chan) with a large
    initial request-n: the connection is lost (mode 0 orderly EOF, 1 transport error) `when` = 0: in the same read
    as the request, before the publisher's feeder tasks took a step; 1: one loop iteration later; 2: after two
    elements were emitted on credit 2.  Cancelled means it stops producing: after the close notification the source
    is not pulled any further, nothing is written, no stream is left, on_close was delivered exactly once.

    pre: 0 <= when <= 2 and 0 <= mode <= 1
    post: _ in ALLOWED
    """
    from harness.c06_credit import _publisher
    from rsocket.streams.stream_from_async_generator import StreamFromAsyncGenerator
    from rsocket.streams.stream_from_generator import StreamFromGenerator
    when = conc(when, 0, 2)
    mode = conc(mode, 0, 1)
    chan = concb(chan)
    pulled = []
    closed = []

    def source():
        if SRC in ('gen', 'agen'):
            def gen():
                for i in range(MSRC):
                    pulled.append(i)
                    yield Payload(bytes([65 + i])), False
            if SRC == 'gen':
                return StreamFromGenerator(gen)

            async def agen():
                for i in range(MSRC):
                    pulled.append(i)
                    yield Payload(bytes([65 + i])), False
            return StreamFromAsyncGenerator(agen)
        return _publisher(SRC, MSRC, False, pulled)      # back-pressure factories record what they were asked for

    class H(BaseRequestHandler):
        async def request_stream(self, payload):
            return source()

        async def request_channel(self, payload):
            return source(), Rec()

        async def on_close(self, rsocket, exception=None):
            closed.append(len(pulled))

    loop = new_loop()
    with loop:
        t = SimTransport(loop)
        s = RSocketServer(t, handler_factory=H)
        loop.run_ready()
        n0 = 2 if when == 2 else 1000
        if chan:
            t.feed_wire(to_request_channel_frame(1, Payload(b'q'), initial_request_n=n0))
        else:
            t.feed_wire(to_request_stream_frame(1, Payload(b'q'), initial_request_n=n0))
        if when == 1:
            loop.run_iteration()
        elif when == 2:
            loop.run_ready()
        if mode == 0:
            t.eof()
        else:
            t.fail()
        loop.run_ready()
        written = len(t.sent)
        pulled_then = len(pulled)
        loop.advance_us(3000000)
        if when == 2:
            t.feed_wire(to_request_n_frame(1, 3))
            loop.run_ready()
        devs = []
        if len(closed) != 1:
            devs.append('C11:on_close-delivered-%d-times' % len(closed))
        elif len(pulled) != closed[0] or len(pulled) != pulled_then:
            devs.append('C11:library-publisher-still-producing-after-connection-loss:' + SRC)
        if when == 0 and SRC in ('gen', 'agen') and pulled:
            devs.append('C11:library-publisher-started-although-connection-was-lost-with-the-request:' + SRC)
        if len(t.sent) != written:
            devs.append('C11:frame-written-after-connection-ended')
        if s._stream_control._streams:
            devs.append('C11:streams-left-registered')
        d = generic_dev(loop, s, expect_closed=True)
        if d:
            devs.append('C11:' + d)
        stats.note(True, {'src': SRC, 'when': when, 'mode': mode, 'chan': chan, 'pulled': len(pulled)})
    return pick_dev(devs, ALLOWED)


CUT_MAX = len(SERVER_IN if ROLE == 'server' else CLIENT_IN)


def w_cut_inside_fragmented_frame(c: int) -> bool:
    """
    witness: the cut range contains offsets strictly inside the fragmented PAYLOAD and inside a length prefix

    pre: 0 <= c <= CUT_MAX
    post: not _
    """
    data = SERVER_IN if ROLE == 'server' else CLIENT_IN
    p = FrameParser()
    # number of complete frames before the cut and whether the cut is 1 or 2 bytes into a length prefix
    off = 0
    n = 0
    while off + 3 <= c:
        ln = data[off] * 65536 + data[off + 1] * 256 + data[off + 2]
        if off + 3 + ln > c:
            break
        off += 3 + ln
        n += 1
    return n >= len(INB) + 2 and 1 <= c - off <= 2
