"""C01 End-to-end payload delivery and request/response correlation (DESIGN §5 C01): two real endpoints on one
virtual loop joined by a simulated link (TCP framing with re-chunked delivery, or message framing)."""
from datetime import timedelta

import vlib.env  # noqa: F401
from vlib import stats
from vlib.env import part
from vlib.known import allowed, pick as pick_dev
from vlib.sim import (new_loop, Pipe, SimMessageTransport, provider, Rec, generic_dev, pick, conc, concb)

from rsocket.helpers import create_future
from rsocket.payload import Payload
from rsocket.request_handler import BaseRequestHandler
from rsocket.rsocket_client import RSocketClient
from rsocket.rsocket_server import RSocketServer
from rsocket.streams.stream_from_generator import StreamFromGenerator
from rsocket.transports.tcp import TransportTCP

ALLOWED = allowed('C01')
KINDS = part('kinds', [0, 2])          # the two concurrent interactions: 0 rr, 1 fnf, 2 stream, 3 channel, 4 metadata-push
LENS = (1, 40, 100, 150)               # data length classes: 1 fragment, 1, 2, 3 fragments at size 64 (metadata adds more)
L1 = part('l1', None)                  # optional partition of the first interaction's length class
MODE = part('mode', None)              # optional partition of the link mode
PACE = part('pace', None)
L2 = part('l2', 1)                     # length class of the second interaction's payloads
NAMES = ('rr', 'fnf', 'rs', 'ch', 'mp')
CHUNKS = (1, 70, 10 ** 6)


def _b(x):
    return b'' if x is None else bytes(x)


def _payload(tag, li):
    """distinct content per payload so that cross-delivery is detectable"""
    return Payload(bytes([tag]) * LENS[li], bytes([tag + 1]) * LENS[(li + 1) % 4])


class _Echo(BaseRequestHandler):
    pace = False
    rec = None

    def __init__(self):
        self.chan_subs = []

    def _stream(self, d, m):
        def gen():
            yield Payload(b'1' + d, m), False
            yield Payload(None, b'M' + d[:3]), False          # a metadata-only element is an element too
            yield Payload(b'2' + d, None), True
        return StreamFromGenerator(gen, delay_between_messages=timedelta(milliseconds=1 if type(self).pace else 0))

    async def request_response(self, p):
        type(self).rec.append(('rr', _b(p.data), _b(p.metadata)))
        f = create_future()
        f.set_result(Payload(b'R' + _b(p.data), p.metadata))
        return f

    async def request_fire_and_forget(self, p):
        type(self).rec.append(('fnf', _b(p.data), _b(p.metadata)))

    async def on_metadata_push(self, p):
        type(self).rec.append(('mp', b'', _b(p.metadata)))

    async def request_stream(self, p):
        type(self).rec.append(('rs', _b(p.data), _b(p.metadata)))
        return self._stream(_b(p.data), p.metadata)

    async def request_channel(self, p):
        type(self).rec.append(('ch', _b(p.data), _b(p.metadata)))
        s = Rec(request_on_subscribe=10)
        self.chan_subs.append((_b(p.data), s))
        return self._stream(_b(p.data), p.metadata), s


class Link:
    def __init__(self, loop, tcp, blocking_drain=None):
        self.loop = loop
        self.tcp = tcp
        self.blocking_drain = blocking_drain        # None | 's2c' | 'c2s': that writer's drain() suspends
        if tcp:
            self.c2s = Pipe(loop, auto_drain=blocking_drain != 'c2s')
            self.s2c = Pipe(loop, auto_drain=blocking_drain != 's2c')
            self.client_tr = TransportTCP(self.s2c.reader, self.c2s)
            self.server_tr = TransportTCP(self.c2s.reader, self.s2c)
        else:
            self.client_tr = SimMessageTransport(loop)
            self.server_tr = SimMessageTransport(loop)
        self.plan = {'c2s': [], 's2c': []}      # chunk sizes for the first deliveries of a direction (TCP mode)
        self.runaway = False

    def _move(self, direction):
        if self.tcp:
            pipe = self.c2s if direction == 'c2s' else self.s2c
            if not pipe.pending:
                return 0
            plan = self.plan[direction]
            n = plan.pop(0) if plan else 10 ** 6
            return pipe.deliver(n)
        src, dst = (self.client_tr, self.server_tr) if direction == 'c2s' else (self.server_tr, self.client_tr)
        n = 0
        while src.out:
            dst.deliver(src.out.pop(0))
            n += 1
        if dst.runaway:
            self.runaway = True
        return n

    def pump(self, rounds=80):
        idle = 0
        for _ in range(rounds):
            self.loop.run_ready()
            if self.tcp and self.blocking_drain:
                # the writers' drain() suspends (full kernel buffer): frames pile up in the send queues meanwhile;
                # each round lets the pending drain of either side complete
                self.c2s.release_drain()
                self.s2c.release_drain()
                self.loop.run_ready()
            moved = self._move('c2s')
            self.loop.run_ready()
            moved += self._move('s2c')
            self.loop.run_ready()
            if moved == 0:
                idle += 1
                self.loop.advance_us(1500)          # paced publishers (1 ms between elements)
                if idle >= 4:
                    return True
            else:
                idle = 0
        return False


def c_end_to_end(i1: bool, i2: bool, l1: int, frag: bool, mode: int, pace: bool) -> str:
    """
    Two concurrent interactions KINDS (each of: request-response, fire-and-forget, stream with three elements - one of them
    metadata-only -, channel with three elements per direction, metadata-push), the first initiated by the client (i1) or the server, the second
    likewise (i2); payload data/metadata of length classes l1 (first) and L2 (second): 1 / 40 / 100 / 150 bytes with a
    distinct byte pattern per payload; both endpoints fragment at 64 bytes or not at all; link mode 0: message framing,
    1: TCP framing delivered whole, 2: TCP with the first client->server deliveries cut to 1 byte then 70 bytes,
    3: TCP with the first server->client deliveries cut to 70 bytes then 1 byte, 4 / 5: TCP delivered whole but the
    server's / the client's writer drain() suspends until the next link round (its send queue builds up); publishers emit in a burst or
    one element per millisecond.  Every non-empty payload handed in is delivered to the matching handler / subscriber
    exactly once, byte-for-byte (data and metadata), in order within its stream, to no other stream; each caller gets
    the response of its own request; afterwards no stream is left open on either side.

    pre: 0 <= l1 <= 3 and 0 <= mode <= 5 and (L1 is None or l1 == L1) and (MODE is None or mode == MODE) and (PACE is None or pace == PACE)
    post: _ in ALLOWED
    """
    l1 = conc(l1, 0, 3)
    mode = conc(mode, 0, 5)
    i1, i2, frag, pace = concb(i1), concb(i2), concb(frag), concb(pace)
    loop = new_loop()
    with loop:
        link = Link(loop, tcp=mode != 0, blocking_drain={4: 's2c', 5: 'c2s'}.get(mode))
        if mode == 2:
            link.plan['c2s'] = [1, 1, 1, 70]
        elif mode == 3:
            link.plan['s2c'] = [70, 1, 1]
        srec, crec = [], []

        class SH(_Echo):
            rec = srec
        SH.pace = pace

        class CH(_Echo):
            rec = crec
        CH.pace = pace

        fs = 64 if frag else None
        srv = RSocketServer(link.server_tr, handler_factory=SH, fragment_size_bytes=fs)
        cli = RSocketClient(provider([link.client_tr]), handler_factory=CH, keep_alive_period=timedelta(days=20),
                            max_lifetime_period=timedelta(days=24), fragment_size_bytes=fs)
        loop.create_task(cli.connect())
        loop.run_ready()
        started = []
        for idx, (kind, by_client, li, tag) in enumerate(((KINDS[0], i1, l1, 16), (KINDS[1], i2, L2, 64))):
            ep = cli if by_client else srv
            p = _payload(tag, li)
            d, m = _b(p.data), _b(p.metadata)
            if kind == 0:
                started.append((kind, by_client, d, m, ep.request_response(p)))
            elif kind == 1:
                ep.fire_and_forget(p)
                started.append((kind, by_client, d, m, None))
            elif kind == 2:
                s = Rec()
                ep.request_stream(p).subscribe(s)
                started.append((kind, by_client, d, m, s))
            elif kind == 3:
                def gen(d=d):
                    yield Payload(b'c1' + d, None), False
                    yield Payload(b'', b'mo' + d[:2]), False
                    yield Payload(b'c2' + d, b'm' + d[:5]), True
                s = Rec()
                ep.request_channel(p, StreamFromGenerator(gen)).subscribe(s)
                started.append((kind, by_client, d, m, s))
            else:
                ep.metadata_push(m)
                started.append((kind, by_client, b'', m, None))
        quiescent = link.pump()
        devs = []
        if not quiescent:
            devs.append('link-never-quiescent')
        if link.runaway:
            devs.append('parser-runaway')
        for kind, by_client, d, m, x in started:
            rec = srec if by_client else crec
            other = crec if by_client else srec
            peer = srv if by_client else cli
            want = (NAMES[kind], d, m)
            if rec.count(want) != 1:
                devs.append('C01:%s:request-payload-delivered-%d-times-to-the-peer-handler' % (NAMES[kind], rec.count(want)))
            if want in other and not (started[0][1] != started[1][1] and (NAMES[kind], d, m) in
                                      [(NAMES[k2], d2, m2) for k2, c2, d2, m2, _ in started if c2 != by_client]):
                devs.append('request-delivered-to-the-wrong-endpoint')
            if kind == 0:
                if not x.done() or x.cancelled() or x.exception() is not None:
                    devs.append('C01:rr:caller-did-not-get-a-response')
                else:
                    r = x.result()
                    if _b(r.data) != b'R' + d or _b(r.metadata) != m:
                        devs.append('C01:rr:caller-got-a-response-that-is-not-its-own')
            elif kind in (2, 3):
                got = [(_b(a), _b(b)) for a, b in x.vals]
                if got != [(b'1' + d, m), (b'', b'M' + d[:3]), (b'2' + d, b'')]:
                    devs.append('C01:%s:stream-elements-lost-duplicated-corrupted-or-reordered' % NAMES[kind])
                if x.log != ['S', 'N', 'N', 'NC']:
                    devs.append('C01:%s:subscriber-signals-differ' % NAMES[kind])
                if kind == 3:
                    subs = [s for dd, s in peer._handler.chan_subs if dd == d]
                    if len(subs) != 1:
                        devs.append('channel-handler-invoked-%d-times' % len(subs))
                    else:
                        got2 = [(_b(a), _b(b)) for a, b in subs[0].vals]
                        if got2 != [(b'c1' + d, b''), (b'', b'mo' + d[:2]), (b'c2' + d, b'm' + d[:5])]:
                            devs.append('C01:ch:requester-elements-lost-duplicated-corrupted-or-reordered')
        if len(srec) + len(crec) != len(started):
            devs.append('a-handler-was-invoked-for-a-payload-nobody-sent')
        if cli._stream_control._streams or srv._stream_control._streams:
            devs.append('streams-left-open-at-quiescence')
        if cli._frame_fragment_cache._frames_by_stream_id or srv._frame_fragment_cache._frames_by_stream_id:
            devs.append('partial-frames-left-at-quiescence')
        d_ = generic_dev(loop, cli, srv)
        if d_:
            devs.append(d_)
        stats.note(True, {'kinds': list(KINDS), 'by_client': [i1, i2], 'l1': l1, 'frag': frag, 'mode': mode, 'pace': pace})
        loop.create_task(cli.close())
        loop.run_ready()
    return pick_dev(devs, ALLOWED)
