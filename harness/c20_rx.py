"""C20 Rx/ReactiveX adapters are transparent (DESIGN §5 C20)."""
from datetime import timedelta

import vlib.env  # noqa: F401
from vlib import stats
from vlib.env import part
from vlib.known import allowed, pick as pick_dev
from vlib.sim import new_loop, SimTransport, provider, Rec, generic_dev, conc, concb

from rsocket.error_codes import ErrorCode
from rsocket.frame import (PayloadFrame, RequestNFrame, CancelFrame, RequestStreamFrame, RequestChannelFrame,
                           RequestResponseFrame, RequestFireAndForgetFrame, MetadataPushFrame, ErrorFrame, SetupFrame)
from rsocket.frame_builders import (to_payload_frame, to_request_n_frame, to_request_stream_frame,
                                    to_request_response_frame, to_request_channel_frame, to_fire_and_forget_frame,
                                    to_metadata_push_frame)
from rsocket.payload import Payload
from rsocket.rsocket_client import RSocketClient
from rsocket.rsocket_server import RSocketServer

ALLOWED = allowed('C20')
LIB = part('lib', 'rx4')          # rx4 = reactivex (v4), rx3 = rx (v3)
M = part('m', 2)                  # elements the peer / the observable holds

if LIB == 'rx4':
    import reactivex as rxm
    from reactivex.subject import Subject
    from rsocket.reactivex.reactivex_client import ReactiveXClient as Client
    from rsocket.reactivex.reactivex_handler import BaseReactivexHandler as BaseH
    from rsocket.reactivex.reactivex_handler_adapter import reactivex_handler_factory as hfactory
    from rsocket.reactivex.reactivex_channel import ReactivexChannel as Channel
    from rsocket.reactivex.back_pressure_publisher import from_observable_with_backpressure, observable_from_async_generator
else:
    import rx as rxm
    from rx.subject import Subject
    from rsocket.rx_support.rx_rsocket import RxRSocket as Client
    from rsocket.rx_support.rx_handler import BaseRxHandler as BaseH
    from rsocket.rx_support.rx_handler_adapter import rx_handler_factory as hfactory
    from rsocket.rx_support.rx_channel import RxChannel as Channel
    from rsocket.rx_support.back_pressure_publisher import from_observable_with_backpressure, observable_from_async_generator


class Obs:
    """recording observer"""

    def __init__(self):
        self.log = []

    def on_next(self, v):
        self.log.append(('N', bytes(v.data or b'') if v is not None else None))

    def on_error(self, e):
        self.log.append(('E', type(e).__name__))

    def on_completed(self):
        self.log.append(('C',))


def _subscribe(observable, o):
    return observable.subscribe(on_next=o.on_next, on_error=o.on_error, on_completed=o.on_completed)


def _client(loop):
    t = SimTransport(loop)
    c = RSocketClient(provider([t]), keep_alive_period=timedelta(days=20), max_lifetime_period=timedelta(days=24))
    loop.create_task(c.connect())
    loop.run_ready()
    return t, c


def _credit(t, sid=1):
    total = 0
    for f in t.frames(sid):
        if isinstance(f, (RequestStreamFrame, RequestChannelFrame)):
            total += f.initial_request_n
        elif isinstance(f, RequestNFrame):
            total += f.request_n
    return total


def c_client_stream(limit: int, ending: int, dispose_at: int, channel: bool) -> str:
    """
    Client adapter, inbound direction (request_stream, or request_channel without an outbound observable): the peer
    holds M elements and sends them as far as the requester's credit allows, then completes (ending 0), completes on
    the last element (1) or fails (2); the application disposes the result observable after `dispose_at` elements
    (M+1: never).  request_limit is a SYMBOLIC 31-bit integer.  The observer sees exactly the elements delivered, in
    order, with the terminal preserved; REQUEST_STREAM/CHANNEL carries initial n == limit and no REQUEST_N exceeds limit
    (outstanding demand never exceeds limit); disposing a pending stream emits exactly one CANCEL and nothing reaches the
    observer afterwards.

    pre: 1 <= limit <= 0x7FFFFFFF
    pre: 0 <= ending <= 2 and 0 <= dispose_at <= M + 1
    post: _ in ALLOWED
    """
    ending = conc(ending, 0, 2)
    dispose_at = conc(dispose_at, 0, M + 1)
    channel = concb(channel)
    loop = new_loop()
    with loop:
        t, c = _client(loop)
        cl = Client(c)
        o = Obs()
        if channel:
            observable = cl.request_channel(Payload(b'q'), request_limit=limit)
        else:
            observable = cl.request_stream(Payload(b'q'), request_limit=limit)
        disp = _subscribe(observable, o)
        loop.run_ready()
        devs = []
        first = [f for f in t.frames(1) if isinstance(f, (RequestStreamFrame, RequestChannelFrame))]
        if len(first) != 1 or first[0].initial_request_n != limit:
            devs.append('request-limit-not-used-as-initial-request-n')
        sent = 0
        disposed = False
        terminal_sent = False
        want = []
        want_at_dispose = None
        if dispose_at == 0:
            disp.dispose()
            disposed = True
            want_at_dispose = []
            loop.run_ready()
        while sent < M and not disposed:
            if _credit(t) <= sent:
                break                       # the peer waits for credit that never comes: limit bounds the request
            last = sent == M - 1
            t.feed_wire(to_payload_frame(1, Payload(bytes([65 + sent])), complete=(ending == 1 and last)))
            want.append(('N', bytes([65 + sent])))
            if ending == 1 and last:
                terminal_sent = True
                want.append(('C',))
            sent += 1
            loop.run_ready()
            if sent == dispose_at:
                disp.dispose()
                disposed = True
                want_at_dispose = list(want)
                loop.run_ready()
        if not disposed and sent == M and not terminal_sent:
            if ending == 2:
                fr = ErrorFrame()
                fr.stream_id = 1
                fr.error_code = ErrorCode.APPLICATION_ERROR
                fr.data = b'bad'
                t.feed_wire(fr)
                want.append(('E', 'RuntimeError'))
            else:
                t.feed_wire(to_payload_frame(1, Payload(), complete=True, is_next=False))
                want.append(('C',))
            terminal_sent = True
            loop.run_ready()
        if disposed and not terminal_sent:
            # whatever the peer still sends must not reach the observer
            t.feed_wire(to_payload_frame(1, Payload(b'late'), complete=True))
            loop.run_ready()
        got = o.log
        if disposed:
            if got != want_at_dispose:
                devs.append('C20:signal-after-dispose' if got[:len(want_at_dispose)] == want_at_dispose else 'elements-before-dispose-differ')
            cancels = [f for f in t.frames(1) if isinstance(f, CancelFrame)]
            if not terminal_sent and len(cancels) != 1:
                devs.append('C20:dispose-produced-%d-CANCEL-frames' % len(cancels))
        elif got != want:
            devs.append('C20:observer-events-differ-from-what-the-peer-sent')
        # the request limit bounds how many elements are requested at a time: outstanding demand never exceeds it
        if _credit(t) - sent > limit:
            devs.append('C20:outstanding-demand-exceeds-request-limit')
        for f in t.frames(1):
            if isinstance(f, RequestNFrame) and f.request_n > limit:
                devs.append('C20:REQUEST_N-larger-than-request-limit')
        stats.note(sent >= 1, {'lib': LIB, 'm': M, 'ending': ending, 'dispose_at': dispose_at, 'channel': channel, 'delivered': sent})
        d = generic_dev(loop, c)
        if d:
            devs.append(d)
        loop.create_task(c.close())
        loop.run_ready()
    return pick_dev(devs, ALLOWED)


def c_client_channel_out(grant1: int, grant2: int, bp: bool, err_at: int) -> str:
    """
    Client adapter, outbound direction of a channel: the application's observable (plain, or a back-pressure-aware
    factory) holds M elements and optionally fails after `err_at` of them; the peer grants SYMBOLIC credits grant1,
    grant2.  PAYLOAD(next) on the wire == min(elements available, credit), element for element in order; completion /
    error preserved as COMPLETE / ERROR after the last element; a factory is asked for exactly the granted amounts.

    pre: 1 <= grant1 <= 0x7FFFFFFF and 1 <= grant2 <= 0x7FFFFFFF
    pre: 0 <= err_at <= M + 1
    post: _ in ALLOWED
    """
    err_at = conc(err_at, 0, M + 1)
    bp = concb(bp)
    avail = min(err_at, M)
    fails = err_at <= M
    asked = []
    els = [Payload(bytes([97 + i])) for i in range(M)]

    async def agen():
        for i, p in enumerate(els):
            if fails and i == err_at:
                raise RuntimeError('source failed')
            yield p
        if fails and err_at == M:
            raise RuntimeError('source failed')

    def factory(feedback):
        feedback.subscribe(on_next=lambda n: asked.append(n))
        return observable_from_async_generator(agen().__aiter__(), feedback)

    if bp:
        source = from_observable_with_backpressure(factory)
    else:
        parts = [rxm.from_iterable(els[:avail])]
        if fails:
            parts.append(rxm.throw(RuntimeError('source failed')))
        source = rxm.concat(*parts)
    loop = new_loop()
    with loop:
        t, c = _client(loop)
        cl = Client(c)
        o = Obs()
        _subscribe(cl.request_channel(Payload(b'q'), request_limit=3, observable=source), o)
        loop.run_ready()
        devs = []

        def nexts():
            return [bytes(f.data) for f in t.frames(1) if isinstance(f, PayloadFrame) and f.flags_next]

        if nexts():
            devs.append('element-sent-without-credit')
        credit = 0
        for g in (grant1, grant2):
            t.feed_wire(to_request_n_frame(1, g))
            credit += g
            loop.run_ready()
            if len(nexts()) != min(avail, credit):
                devs.append('C20:outbound-elements-differ-from-min(available,credit)')
        if nexts() != [bytes([97 + i]) for i in range(len(nexts()))]:
            devs.append('outbound-elements-out-of-order')
        out = t.frames(1)
        errs = [f for f in out if isinstance(f, ErrorFrame)]
        comps = [f for f in out if isinstance(f, PayloadFrame) and f.flags_complete]
        if credit > avail:
            if fails and (len(errs) != 1 or comps):
                devs.append('C20:observable-error-not-preserved-as-ERROR')
            if not fails and (len(comps) != 1 or errs):
                devs.append('C20:observable-completion-not-preserved-as-COMPLETE')
        if bp and asked != [grant1, grant2][:len(asked)]:
            devs.append('backpressure-factory-not-asked-for-the-granted-amounts')
        stats.note(len(nexts()) >= 1, {'lib': LIB, 'm': M, 'bp': bp, 'err_at': err_at})
        d = generic_dev(loop, c)
        if d:
            devs.append(d)
        loop.create_task(c.close())
        loop.run_ready()
    return pick_dev(devs, ALLOWED)


def c_client_single(kind: int, outcome: int) -> str:
    """
    Client adapter, single-shot interactions: request_response (response with data / empty response / ERROR),
    fire_and_forget and metadata_push put the same frame on the wire as the core API and the observable completes
    with the response element (none for an empty response) / fails with the peer's error.

    pre: 0 <= kind <= 2 and 0 <= outcome <= 2
    post: _ in ALLOWED
    """
    kind = conc(kind, 0, 2)
    outcome = conc(outcome, 0, 2)
    loop = new_loop()
    with loop:
        t, c = _client(loop)
        cl = Client(c)
        o = Obs()
        devs = []
        if kind == 0:
            _subscribe(cl.request_response(Payload(b'q', b'm')), o)
            loop.run_ready()
            fr = [f for f in t.frames(1) if isinstance(f, RequestResponseFrame)]
            if len(fr) != 1 or bytes(fr[0].data) != b'q' or bytes(fr[0].metadata) != b'm':
                devs.append('request-frame-differs-from-core-api')
            if outcome == 0:
                t.feed_wire(to_payload_frame(1, Payload(b'resp'), complete=True))
                want = [('N', b'resp'), ('C',)]
            elif outcome == 1:
                t.feed_wire(to_payload_frame(1, Payload(), complete=True, is_next=False))
                want = [('C',)]
            else:
                e = ErrorFrame()
                e.stream_id = 1
                e.error_code = ErrorCode.APPLICATION_ERROR
                e.data = b'no'
                t.feed_wire(e)
                want = [('E', 'RuntimeError')]
            loop.run_ready()
            if o.log != want:
                devs.append('C20:request-response-observable-differs')
        elif kind == 1:
            _subscribe(cl.fire_and_forget(Payload(b'f', b'fm')), o)
            loop.run_ready()
            fr = [f for f in t.frames() if isinstance(f, RequestFireAndForgetFrame)]
            if len(fr) != 1 or bytes(fr[0].data) != b'f' or bytes(fr[0].metadata) != b'fm':
                devs.append('fire-and-forget-frame-differs-from-core-api')
            if [x[0] for x in o.log][-1:] != ['C']:
                devs.append('fire-and-forget-observable-did-not-complete')
        else:
            _subscribe(cl.metadata_push(b'meta'), o)
            loop.run_ready()
            fr = [f for f in t.frames() if isinstance(f, MetadataPushFrame)]
            if len(fr) != 1 or bytes(fr[0].metadata) != b'meta' or fr[0].stream_id != 0:
                devs.append('metadata-push-frame-differs-from-core-api')
            if [x[0] for x in o.log][-1:] != ['C']:
                devs.append('metadata-push-observable-did-not-complete')
        stats.note(True, {'lib': LIB, 'kind': kind, 'outcome': outcome})
        d = generic_dev(loop, c)
        if d:
            devs.append(d)
        loop.create_task(c.close())
        loop.run_ready()
    return pick_dev(devs, ALLOWED)


def c_handler_adapter(kind: int, n0: int, n1: int, bp: bool, err: bool, limit_rate: int) -> str:
    """
    Handler adapter on a server: the delegate answers request_response / request_stream / request_channel with
    observables (M elements, optionally failing at the end; plain or back-pressure factory); fire_and_forget,
    metadata_push and on_setup must reach the delegate with the same arguments.  Wire: response / elements equal the
    observable's, in order, never more than the requester's SYMBOLIC credit (n0 + n1), terminal preserved; for a
    channel the requester's elements reach the delegate's observer in order with the terminal, and the adapter
    requests limit_rate at a time.

    pre: 0 <= kind <= 5
    pre: 1 <= n0 <= 0x7FFFFFFF and 1 <= n1 <= 0x7FFFFFFF and 1 <= limit_rate <= 0x7FFFFFFF
    post: _ in ALLOWED
    """
    kind = conc(kind, 0, 5)
    bp, err = concb(bp), concb(err)
    calls = []
    asked = []
    inbound = Obs()
    els = [Payload(bytes([65 + i])) for i in range(M)]

    def source():
        async def agen():
            for p in els:
                yield p
            if err:
                raise RuntimeError('delegate observable failed')

        if bp:
            def factory(feedback):
                feedback.subscribe(on_next=lambda n: asked.append(n))
                return observable_from_async_generator(agen().__aiter__(), feedback)
            return from_observable_with_backpressure(factory)
        parts = [rxm.from_iterable(els)]
        if err:
            parts.append(rxm.throw(RuntimeError('delegate observable failed')))
        return rxm.concat(*parts)

    class D(BaseH):
        async def on_setup(self, de, me, payload):
            calls.append(('on_setup', bytes(de), bytes(me), bytes(payload.data or b'')))

        async def request_response(self, payload):
            calls.append(('request_response', bytes(payload.data or b'')))
            return rxm.throw(RuntimeError('delegate failed')) if err else rxm.of(Payload(b'answer'))

        async def request_stream(self, payload):
            calls.append(('request_stream', bytes(payload.data or b'')))
            return source()

        async def request_channel(self, payload):
            calls.append(('request_channel', bytes(payload.data or b'')))
            obs = type('O', (), {'on_next': lambda s, v: inbound.on_next(v), 'on_error': lambda s, e: inbound.on_error(e),
                                  'on_completed': lambda s: inbound.on_completed()})()
            return Channel(source(), obs, limit_rate)

        async def request_fire_and_forget(self, payload):
            calls.append(('request_fire_and_forget', bytes(payload.data or b''), bytes(payload.metadata or b'')))

        async def on_metadata_push(self, payload):
            calls.append(('on_metadata_push', bytes(payload.metadata or b'')))

    loop = new_loop()
    with loop:
        t = SimTransport(loop)
        s = RSocketServer(t, handler_factory=hfactory(D))
        loop.run_ready()
        devs = []
        sid = 1
        if kind == 0:
            f = SetupFrame()
            f.keep_alive_milliseconds = 1000
            f.max_lifetime_milliseconds = 2000
            f.data_encoding = b'a/b'
            f.metadata_encoding = b'c/d'
            f.data = b'sp'
            t.feed_wire(f)
            loop.run_ready()
            if calls != [('on_setup', b'a/b', b'c/d', b'sp')]:
                devs.append('C20:on_setup-did-not-reach-the-delegate')
        elif kind == 1:
            t.feed_wire(to_fire_and_forget_frame(sid, Payload(b'f', b'fm')))
            loop.run_ready()
            if calls != [('request_fire_and_forget', b'f', b'fm')]:
                devs.append('C20:fire-and-forget-did-not-reach-the-delegate')
        elif kind == 2:
            t.feed_wire(to_metadata_push_frame(b'meta'))
            loop.run_ready()
            if calls != [('on_metadata_push', b'meta')]:
                devs.append('C20:metadata-push-did-not-reach-the-delegate')
        elif kind == 3:
            t.feed_wire(to_request_response_frame(sid, Payload(b'rq')))
            loop.run_ready()
            out = t.frames(sid)
            if err:
                if len(out) != 1 or not isinstance(out[0], ErrorFrame):
                    devs.append('C20:delegate-error-not-preserved')
            elif len(out) != 1 or not isinstance(out[0], PayloadFrame) or bytes(out[0].data) != b'answer' or not out[0].flags_complete:
                devs.append('C20:request-response-answer-differs')
        else:
            if kind == 4:
                t.feed_wire(to_request_stream_frame(sid, Payload(b'rq'), initial_request_n=n0))
            else:
                t.feed_wire(to_request_channel_frame(sid, Payload(b'rq'), initial_request_n=n0))
            loop.run_ready()
            credit = n0

            def nexts():
                return [bytes(f.data) for f in t.frames(sid) if isinstance(f, PayloadFrame) and f.flags_next]
            if len(nexts()) != min(M, credit):
                devs.append('C20:elements-on-wire-differ-from-min(M,credit)')
            t.feed_wire(to_request_n_frame(sid, n1))
            credit += n1
            loop.run_ready()
            if len(nexts()) != min(M, credit):
                devs.append('C20:elements-on-wire-differ-from-min(M,credit)')
            if nexts() != [bytes([65 + i]) for i in range(len(nexts()))]:
                devs.append('elements-out-of-order')
            out = t.frames(sid)
            if credit > M:
                errs = [f for f in out if isinstance(f, ErrorFrame)]
                comps = [f for f in out if isinstance(f, PayloadFrame) and f.flags_complete]
                if err and (len(errs) != 1 or comps):
                    devs.append('C20:delegate-error-not-preserved')
                if not err and (len(comps) != 1 or errs):
                    devs.append('C20:completion-not-preserved')
            if bp and asked != [n0, n1][:len(asked)]:
                devs.append('backpressure-factory-not-asked-for-the-credited-amounts')
            if kind == 5:
                rn = [f.request_n for f in t.frames(sid) if isinstance(f, RequestNFrame)]
                if not rn or any(x > limit_rate for x in rn):
                    devs.append('C20:channel-adapter-requests-more-than-limit_rate-at-a-time')
                k = 0
                while k < 5:
                    rn = [f.request_n for f in t.frames(sid) if isinstance(f, RequestNFrame)]
                    if sum(rn) <= k:
                        # the requester still has elements but the adapter stopped granting credit: the direction stalls
                        devs.append('C20:channel-inbound-direction-stalls-after-%d-elements' % k)
                        break
                    if sum(rn) - k > limit_rate:
                        devs.append('C20:outstanding-demand-exceeds-limit_rate')
                    t.feed_wire(to_payload_frame(sid, Payload(bytes([120 + k])), complete=False))
                    k += 1
                    loop.run_ready()
                t.feed_wire(to_payload_frame(sid, Payload(), complete=True, is_next=False))
                loop.run_ready()
                want_in = [('N', bytes([120 + i])) for i in range(k)] + [('C',)]
                if inbound.log != want_in:
                    devs.append('C20:channel-inbound-elements-differ-at-the-delegate-observer')
        stats.note(True, {'lib': LIB, 'kind': kind, 'm': M, 'bp': bp, 'err': err})
        d = generic_dev(loop, s)
        if d:
            devs.append(d)
        t.eof()
        loop.run_ready()
        if loop.errors():
            devs.append('loop-exception-handler-called')
    return pick_dev(devs, ALLOWED)


def c_handler_cancel(chan: bool, n0: int, before: int) -> str:
    """
    Handler adapter, cancellation from the peer: the delegate answers request_stream / request_channel (chan) with a
    hot observable the harness drives (a Subject); the requester grants a SYMBOLIC credit n0, `before` elements
    are emitted, then the requester's CANCEL arrives while credit may still be outstanding, then the observable
    produces three more elements.  As with the core API nothing further reaches the wire after the CANCEL, and the
    stream is dropped (a channel: once the requester's direction is finished too).

    pre: 1 <= n0 <= 0x7FFFFFFF and 0 <= before <= 2
    post: _ in ALLOWED
    """
    from rsocket.frame_builders import to_cancel_frame
    chan = concb(chan)
    before = conc(before, 0, 2)
    subj = Subject()
    inbound = Obs()

    class D(BaseH):
        async def request_stream(self, payload):
            return subj

        async def request_channel(self, payload):
            obs = type('O', (), {'on_next': lambda s, v: inbound.on_next(v), 'on_error': lambda s, e: inbound.on_error(e),
                                  'on_completed': lambda s: inbound.on_completed()})()
            return Channel(subj, obs, 3)

    loop = new_loop()
    with loop:
        t = SimTransport(loop)
        s = RSocketServer(t, handler_factory=hfactory(D))
        loop.run_ready()
        sid = 1
        if chan:
            t.feed_wire(to_request_channel_frame(sid, Payload(b'rq'), initial_request_n=n0, complete=True))
        else:
            t.feed_wire(to_request_stream_frame(sid, Payload(b'rq'), initial_request_n=n0))
        loop.run_ready()

        def nexts():
            return [bytes(f.data) for f in t.frames(sid) if isinstance(f, PayloadFrame) and f.flags_next]
        devs = []
        for i in range(before):
            subj.on_next(Payload(bytes([65 + i])))
            loop.run_ready()
        if len(nexts()) != min(before, n0):
            devs.append('C20:elements-on-wire-differ-from-min(emitted,credit)')
        t.feed_wire(to_cancel_frame(sid))
        loop.run_ready()
        at_cancel = len(nexts())
        for i in range(3):
            subj.on_next(Payload(bytes([75 + i])))
            loop.run_ready()
        loop.advance_us(1000000)
        if len(nexts()) != at_cancel:
            devs.append('C20:handler-observable-elements-sent-after-the-peer-cancelled')
        if any(isinstance(f, ErrorFrame) for f in t.frames()):
            devs.append('ERROR-frame-on-cancellation')
        if sid in s._stream_control._streams:
            devs.append('C20:stream-retained-after-CANCEL')
        stats.note(True, {'lib': LIB, 'chan': chan, 'before': before})
        d = generic_dev(loop, s)
        if d:
            devs.append(d)
        t.eof()
        loop.run_ready()
        if loop.errors():
            devs.append('loop-exception-handler-called')
    return pick_dev(devs, ALLOWED)
