"""C02 Frame codec round-trip, canonical bytes, backend independence (DESIGN §5 C02).

One process per (frame type FT, back end).  Every field is a solver variable at its wire width.
"""
import struct

import vlib.env  # noqa: F401
from vlib import stats
from vlib.env import part
from vlib.known import allowed, pick as pick_dev
from vlib.sim import pick

from rsocket.error_codes import ErrorCode
from rsocket.frame import (SetupFrame, LeaseFrame, KeepAliveFrame, RequestResponseFrame, RequestFireAndForgetFrame,
                           RequestStreamFrame, RequestChannelFrame, RequestNFrame, CancelFrame, PayloadFrame,
                           ErrorFrame, MetadataPushFrame, ResumeFrame, ResumeOKFrame, parse_or_ignore,
                           serialize_with_frame_size_header, serialize_prefix_with_frame_size_header)
from rsocket.frame_helpers import pack_24bit, unpack_24bit, pack_position, unpack_position, parse_type
from rsocket.transports.tcp import TransportTCP

ALLOWED = allowed('C02')
FT = part('ft', 10)
CODES = tuple(ErrorCode)

I_, M_, B80, B40, B20 = 0x200, 0x100, 0x80, 0x40, 0x20


def hdr(sid, ft, flags):
    return struct.pack('>I', sid) + struct.pack('>H', (ft << 10) | flags)


def md_block(meta):
    return (struct.pack('>I', len(meta))[1:] + meta) if len(meta) > 0 else b''


def build(ft, sid, fa, fb, fc, ign, n1, n2, p1, p2, code, data, meta, tok, enc1, enc2, maj=1, mino=0):
    """returns (frame object, reference encoding per RSocket 1.0, expected decoded fields)"""
    fl = (I_ if ign else 0)
    if ft == 1:
        f = SetupFrame()
        f.flags_resume = fa
        f.flags_lease = fb
        f.major_version = maj
        f.minor_version = mino
        f.keep_alive_milliseconds = n1
        f.max_lifetime_milliseconds = n2
        f.token_length = len(tok)
        f.resume_identification_token = tok
        f.metadata_encoding = enc1
        f.data_encoding = enc2
        f.metadata = meta
        f.data = data
        fl |= (B80 if fa else 0) | (B40 if fb else 0) | (M_ if len(meta) else 0)
        body = struct.pack('>HHII', maj, mino, n1, n2)
        if fa:
            body += struct.pack('>H', len(tok)) + tok
        body += struct.pack('>B', len(enc1)) + enc1 + struct.pack('>B', len(enc2)) + enc2
        body += md_block(meta) + data
        exp = dict(flags_resume=fa, flags_lease=fb, major_version=maj, minor_version=mino,
                   keep_alive_milliseconds=n1, max_lifetime_milliseconds=n2, metadata_encoding=enc1,
                   data_encoding=enc2, metadata=meta, data=data)
        if fa:
            exp['resume_identification_token'] = tok
            exp['token_length'] = len(tok)
    elif ft == 2:
        f = LeaseFrame()
        f.time_to_live = n1
        f.number_of_requests = n2
        f.metadata = meta
        fl |= (M_ if len(meta) else 0)
        body = struct.pack('>II', n1, n2) + meta
        exp = dict(time_to_live=n1, number_of_requests=n2, metadata=meta)
    elif ft == 3:
        f = KeepAliveFrame()
        f.flags_respond = fa
        f.last_received_position = p1
        f.data = data
        fl |= (B80 if fa else 0)
        body = struct.pack('>Q', p1) + data
        exp = dict(flags_respond=fa, last_received_position=p1, data=data)
    elif ft in (4, 5, 6, 7):
        f = (RequestResponseFrame, RequestFireAndForgetFrame, RequestStreamFrame, RequestChannelFrame)[ft - 4]()
        f.flags_follows = fa
        f.metadata = meta
        f.data = data
        fl |= (B80 if fa else 0) | (M_ if len(meta) else 0)
        body = b''
        exp = dict(flags_follows=fa, metadata=meta, data=data)
        if ft >= 6:
            f.initial_request_n = n1
            body = struct.pack('>I', n1)
            exp['initial_request_n'] = n1
        if ft == 7:
            f.flags_complete = fb
            fl |= (B40 if fb else 0)
            exp['flags_complete'] = fb
        body += md_block(meta) + data
    elif ft == 8:
        f = RequestNFrame()
        f.request_n = n1
        body = struct.pack('>I', n1)
        exp = dict(request_n=n1)
    elif ft == 9:
        f = CancelFrame()
        body = b''
        exp = {}
    elif ft == 10:
        f = PayloadFrame()
        f.flags_follows = fa
        f.flags_complete = fb
        f.flags_next = fc
        f.metadata = meta
        f.data = data
        has = len(meta) > 0 or len(data) > 0
        nxt = fc or has
        fl |= (B80 if fa else 0) | (B40 if fb else 0) | (B20 if nxt else 0) | (M_ if len(meta) else 0)
        body = md_block(meta) + data
        exp = dict(flags_follows=fa, flags_complete=fb, flags_next=nxt, metadata=meta, data=data)
    elif ft == 11:
        f = ErrorFrame()
        f.error_code = code
        f.data = data
        body = struct.pack('>I', int(code)) + data
        exp = dict(error_code=code, data=data)
    elif ft == 12:
        f = MetadataPushFrame()
        f.metadata = meta
        fl |= (M_ if len(meta) else 0)
        body = meta
        exp = dict(metadata=meta)
    elif ft == 13:
        f = ResumeFrame()
        f.major_version = maj
        f.minor_version = mino
        f.token_length = len(tok)
        f.resume_identification_token = tok
        f.last_server_position = p1
        f.first_client_position = p2
        body = struct.pack('>HHH', maj, mino, len(tok)) + tok + struct.pack('>QQ', p1, p2)
        exp = dict(major_version=maj, minor_version=mino, token_length=len(tok),
                   resume_identification_token=tok, last_server_position=p1, first_client_position=p2)
    else:
        f = ResumeOKFrame()
        f.last_received_client_position = p1
        body = struct.pack('>Q', p1)
        exp = dict(last_received_client_position=p1)
    f.stream_id = sid
    f.flags_ignore = ign
    exp['stream_id'] = sid
    exp['flags_ignore'] = ign
    return f, hdr(sid, ft, fl) + body, exp


def fixlen(b, n):
    """same content, CONCRETE length: a symbolic bytes argument keeps a symbolic length term even when the
    precondition pins it, and every offset computed from it then costs a solver query"""
    if n == 0:
        return b''
    return struct.pack('>%dB' % n, *[b[i] for i in range(n)])


class _W:
    def __init__(self):
        self.chunks = []

    def write(self, b):
        self.chunks.append(bytes(b))

    async def drain(self):
        pass


def _run(coro):
    try:
        coro.send(None)
    except StopIteration as e:
        return e.value
    raise RuntimeError('coroutine suspended')


HIS = (0, 1, 0x12345678, 0x7FFFFFFF)


def c_roundtrip(sid: int, fa: bool, fb: bool, fc: bool, ign: bool, n1: int, n2: int, h1: int, l1: int, h2: int,
                l2: int, maj: int, mino: int, code_i: int, data: bytes, meta: bytes, tok: bytes, enc1: bytes, enc2: bytes) -> str:
    """
    value -> bytes (== reference encoding) -> value (fields equal) -> bytes (identical); incremental TCP write
    byte-identical to the one-shot encoding with a correct length prefix.  Frame type FT, this process's back end;
    byte-string LENGTHS are fixed per process (LENS), their contents and every other field are symbolic.

    pre: 0 <= sid <= 0x7FFFFFFF
    pre: 0 <= n1 <= NMAX and 0 <= n2 <= NMAX
    pre: (H1 is None or h1 == H1)
    pre: 0 <= h1 <= 3 and 0 <= h2 <= 3 and 0 <= l1 <= 0xFFFFFFFF and 0 <= l2 <= 0xFFFFFFFF
    pre: 0 <= code_i <= 10 and 0 <= maj <= 0xFFFF and 0 <= mino <= 0xFFFF
    pre: len(data) == LENS[0] and len(meta) == LENS[1] and len(tok) == LENS[2]
    pre: len(enc1) == LENS[3] and len(enc2) == LENS[4]
    post: _ in ALLOWED
    """
    ft = FT
    data = fixlen(data, LENS[0])
    meta = fixlen(meta, LENS[1])
    tok = fixlen(tok, LENS[2])
    enc1 = fixlen(enc1, LENS[3])
    enc2 = fixlen(enc2, LENS[4])
    # 63-bit positions: high word from representatives, low word symbolic (a fully symbolic 64-bit pack->unpack
    # chain is beyond z3 here); the full 63-bit range is covered by c_pack_position + c_unpack_position
    if ft in (3, 13, 14):
        p1 = pick(h1, HIS) * 2 ** 32 + l1
        p2 = (pick(h2, HIS) * 2 ** 32 + l2) if ft == 13 else 0
    else:
        p1 = p2 = 0
    if ft == 2:
        n1 = n1 % 2 ** 31       # LEASE ttl and count are 31-bit fields
        n2 = n2 % 2 ** 31
    if ft in (12, 13):
        sid = 0           # METADATA_PUSH exists on stream 0 only (other ids are dropped by design); RESUME is a
        #                   connection-level frame too (symbolic id + two 63-bit positions exceeds the solver budget)
    code = pick(code_i, CODES) if ft == 11 else ErrorCode.INVALID
    devs = []
    f, ref, exp = build(ft, sid, fa, fb, fc, ign, n1, n2, p1, p2, code, data, meta, tok, enc1, enc2, maj, mino)
    raw = f.serialize()
    if raw != ref:
        devs.append('encoding-differs-from-reference')
    g = parse_or_ignore(raw)
    if g is None:
        devs.append('own-encoding-ignored-by-decoder')
    else:
        if type(g) is not type(f):
            devs.append('decoded-wrong-frame-class')
        for k in exp:
            got = getattr(g, k, None)
            want = exp[k]
            if k in ('data', 'metadata', 'resume_identification_token', 'metadata_encoding', 'data_encoding'):
                got = bytes(got) if got is not None else b''
                if got != want:
                    devs.append('decoded-field-differs:' + k)
            elif k.startswith('flags_'):
                if bool(got) != bool(want):
                    devs.append('decoded-field-differs:' + k)
            elif got != want:
                devs.append('decoded-field-differs:' + k)
        if ft == 10 and (len(data) > 0 or len(meta) > 0) and not g.flags_next:
            devs.append('payload-with-content-without-next')
        raw2 = g.serialize()
        if raw2 != raw:
            devs.append('re-encoding-differs')
    # incremental write used by byte-stream transports
    f2, _, _ = build(ft, sid, fa, fb, fc, ign, n1, n2, p1, p2, code, data, meta, tok, enc1, enc2, maj, mino)
    w = _W()
    t = TransportTCP(None, w)
    _run(t.serialize_partial(f2))
    written = b''.join(w.chunks)
    oneshot = serialize_with_frame_size_header(f)
    if written != oneshot:
        devs.append('partial-write-differs-from-one-shot')
    if len(written) < 3 or struct.unpack('>I', b'\x00' + written[:3])[0] != len(written) - 3:
        devs.append('length-prefix-wrong')
    if oneshot[3:] != raw:
        devs.append('size-header-encoding-differs')
    stats.note(True, {'ft': ft, 'lens': list(LENS), 'flags': [fa, fb, fc, ign]})
    return pick_dev(devs, ALLOWED)


NMAX = part('nmax', 0xFFFFFFFF)
H1 = part('h1', None)
LENS = part('lens', [1, 1, 1, 1, 1])     # concrete lengths of data, metadata, token, metadata MIME, data MIME


def c_bits24(v: int, pre_: bytes, post_: bytes) -> str:
    """
    24-bit length helper over its full range, at an arbitrary offset, this back end.

    pre: 0 <= v <= 0xFFFFFF
    pre: len(pre_) <= 2 and len(post_) <= 2
    post: _ in ALLOWED
    """
    b = pack_24bit(v)
    stats.note(True)
    if len(b) != 3 or b != struct.pack('>I', v)[1:]:
        return 'pack_24bit-wrong'
    if unpack_24bit(pre_ + b + post_, len(pre_)) != v:
        return 'unpack_24bit-wrong'
    return ''


def c_pack_position(p: int) -> str:
    """
    63-bit position encoder over its full range, this back end.

    pre: 0 <= p <= 0x7FFFFFFFFFFFFFFF
    post: _ in ALLOWED
    """
    b = pack_position(p)
    stats.note(True)
    if b != struct.pack('>Q', p):
        return 'pack_position-wrong'
    return ''


def c_unpack_position(b: bytes) -> str:
    """
    63-bit position decoder on arbitrary 8 bytes, this back end (together with c_pack_position: round trip for
    every 63-bit value).

    pre: len(b) == 8
    post: _ in ALLOWED
    """
    v = unpack_position(b)
    stats.note(True)
    if v != struct.unpack('>Q', b)[0] % 2 ** 63:
        return 'unpack_position-wrong'
    return ''


def c_parse_type(b: bytes) -> str:
    """
    well-known-flag / 7-bit splitter on an arbitrary first byte, this back end.

    pre: 1 <= len(b) <= 3
    post: _ in ALLOWED
    """
    known, v = parse_type(b)
    stats.note(True)
    if bool(known) != (b[0] >= 128) or v != b[0] % 128:
        return 'parse_type-wrong'
    return ''
